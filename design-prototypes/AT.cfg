SPECIFICATION Spec
CONSTANT FIXED = TRUE
INVARIANT AuthInv
PROPERTY ConsumeAct
CHECK_DEADLOCK FALSE
