---- MODULE AT ----
\* Scratch prototype: responder side of the handshake (handle_message / send_challenge / handle_auth_message /
\* establish_from_challenge / verify_enr) against a Dolev-Yao attacker A claiming source id X, plus honest X.
EXTENDS Integers, Sequences, FiniteSets, TLC
CONSTANTS FIXED        \* TRUE: record must belong to the claimed source id (candidate repair of F1)
Ids   == {"X", "A"}
KeyOf == [X |-> "kX", A |-> "kA"]
IdOf  == [kX |-> "X", kA |-> "A"]
Addrs == {"aX", "aA"}
Seqs  == {1, 2}
Recs  == {[key |-> k, seq |-> q, addr |-> a] : k \in {"kX", "kA"}, q \in Seqs, a \in Addrs \cup {"none"}}
NoRec == [key |-> "none", seq |-> 0, addr |-> "none"]
VARIABLES chal,      \* [<<id,addr>> -> challenge record or NoChal]   (active_challenges)
          sess,      \* [<<id,addr>> -> set of parties knowing the session keys, {} = no session]
          wru,       \* WhoAreYou queries waiting for the application: set of <<id,addr>>
          nc,        \* next challenge id
          seen,      \* handshake datagrams ever sent (attacker may replay them from any address)
          out,       \* effects: set of records
          proved,    \* history: <<id,addr>> for which a signature by the key hashing to id was accepted over L's own fresh challenge
          budget
vars == <<chal, sess, wru, nc, seen, out, proved, budget>>
NA == {<<i, a>> : i \in Ids, a \in Addrs}
NoChal == [c |-> 0, known |-> NoRec]
Init == /\ chal = [na \in NA |-> NoChal] /\ sess = [na \in NA |-> {}] /\ wru = {} /\ nc = 1
        /\ seen = {} /\ out = {} /\ proved = {} /\ budget = [msg |-> 2, hs |-> 3, replay |-> 2]

\* --- any party sends a message L cannot decrypt, claiming src id i from address a  (handle_message)
UnknownMessage(i, a) ==
  /\ budget.msg > 0 /\ budget' = [budget EXCEPT !.msg = @ - 1]
  /\ sess' = [sess EXCEPT ![<<i,a>>] = {}]                      \* fail_session if one existed
  /\ wru' = IF chal[<<i,a>>].c = 0 THEN wru \cup {<<i,a>>} ELSE wru
  /\ UNCHANGED <<chal, nc, seen, out, proved>>
\* --- application answers with what it knows about i (none / any seq of i's genuine record)  (send_challenge)
AppWhoAreYou(na, known) ==
  /\ na \in wru /\ wru' = wru \ {na}
  /\ (known = NoRec \/ (known.key = KeyOf[na[1]]))
  /\ IF chal[na].c # 0 THEN UNCHANGED <<chal, nc>>
     ELSE chal' = [chal EXCEPT ![na] = [c |-> nc, known |-> known]] /\ nc' = nc + 1
  /\ UNCHANGED <<sess, seen, out, proved, budget>>
\* --- a handshake datagram: claimed src i, from address a, signature by key sk over challenge id c, attached record r, ephemeral secret known to `party`
Handshake(d, a) ==
  LET na == <<d.src, a>>  ch == chal[na] IN
  /\ IF ch.c = 0 THEN UNCHANGED <<chal, sess, out, proved>>     \* no matching WHOAREYOU: dropped
     ELSE LET att  == IF FIXED /\ d.rec # NoRec /\ IdOf[d.rec.key] # d.src THEN NoRec ELSE d.rec
              pick == IF att # NoRec /\ ch.known # NoRec THEN (IF att.seq > ch.known.seq THEN att ELSE ch.known)
                      ELSE IF att # NoRec THEN att ELSE ch.known
          IN IF pick = NoRec
             THEN chal' = [chal EXCEPT ![na] = NoChal] /\ sess' = [sess EXCEPT ![na] = {}] /\ UNCHANGED <<out, proved>>   \* Err(e): fail_session
             ELSE IF ~(d.sigkey = pick.key /\ d.sigc = ch.c)
             THEN UNCHANGED <<chal, sess, out, proved>>                                 \* bad signature: challenge re-inserted
             ELSE /\ chal' = [chal EXCEPT ![na] = NoChal]
                  /\ sess' = [sess EXCEPT ![na] = {d.party, "L"}]
                  /\ proved' = IF IdOf[d.sigkey] = d.src THEN proved \cup {na} ELSE proved
                  /\ out' = out \cup {IF IdOf[pick.key] = d.src /\ pick.addr \in {"none", a}
                                       THEN [e |-> "Established", id |-> IdOf[pick.key], na |-> na]
                                       ELSE [e |-> "Unverifiable", id |-> d.src, na |-> na],
                                      [e |-> "Request", id |-> d.src, na |-> na]}        \* the handshake's own message, attributed to src
  /\ UNCHANGED <<wru, nc>>
\* the attacker builds handshakes with its own key and any record it can produce (own, any seq/addr) or a genuine record of X, or none
AHandshake(a, c, r) ==
  /\ budget.hs > 0 /\ budget' = [budget EXCEPT !.hs = @ - 1]
  /\ c \in 1..(nc - 1)
  /\ r = NoRec \/ r \in Recs
  /\ LET d == [src |-> "X", sigkey |-> "kA", sigc |-> c, rec |-> r, party |-> "A"] IN Handshake(d, a) /\ seen' = seen \cup {d}
\* honest X answers the challenge L sent to its own address
XHandshake(r) ==
  /\ chal[<<"X","aX">>].c # 0 /\ (r = NoRec \/ (r \in Recs /\ r.key = "kX" /\ r.addr \in {"aX", "none"}))
  /\ LET d == [src |-> "X", sigkey |-> "kX", sigc |-> chal[<<"X","aX">>].c, rec |-> r, party |-> "X"] IN Handshake(d, "aX") /\ seen' = seen \cup {d}
  /\ UNCHANGED budget
Replay(d, a) == /\ budget.replay > 0 /\ budget' = [budget EXCEPT !.replay = @ - 1] /\ d \in seen /\ Handshake(d, a) /\ UNCHANGED seen

Next == \/ \E i \in {"X"}, a \in Addrs : UnknownMessage(i, a)
        \/ \E na \in wru, k \in {NoRec} \cup Recs : AppWhoAreYou(na, k)
        \/ \E a \in Addrs, c \in 1..4, r \in {NoRec} \cup Recs : AHandshake(a, c, r)
        \/ \E r \in {NoRec} \cup Recs : XHandshake(r)
        \/ \E d \in seen, a \in Addrs : Replay(d, a)
Spec == Init /\ [][Next]_vars
\* C01: anything attributed to X, and any session keyed X, needs X's key to have signed L's own fresh challenge for that node address
AuthInv == /\ \A o \in out : o.id = "X" => o.na \in proved
           /\ \A na \in NA : na[1] = "X" /\ sess[na] # {} => na \in proved /\ "A" \notin sess[na]
\* C03: a session is created / re-keyed only by consuming an outstanding challenge for exactly that node address
ConsumeAct == [][\A na \in NA : sess'[na] # sess[na] /\ sess'[na] # {} => chal[na].c # 0 /\ chal'[na].c = 0]_vars
====
