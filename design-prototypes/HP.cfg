SPECIFICATION Spec
CONSTANTS RIDS = {"r1", "r2"}  RETRIES = 1  HASENR = TRUE  MAXN = 7
CONSTRAINT Bound
INVARIANT ExemptInv
CHECK_DEADLOCK FALSE
