---- MODULE HP2 ----
\* Scratch prototype of the request / challenge / exemption core of handler/mod.rs (one peer address).
EXTENDS Integers, Sequences, FiniteSets, TLC
CONSTANTS RIDS,        \* external request ids the application may submit
          RETRIES,     \* config.request_retries
          HASENR,      \* contact carries a record (TRUE) or not (FALSE)
          MAXN         \* bound on fresh nonces (state constraint)
INT == "int"           \* the internal FINDNODE[0] request id
VARIABLES s,           \* handler state record
          net,         \* datagrams in flight: set of records
          ps,          \* honest peer state
          submitted, outcome, wru  \* bookkeeping: submitted rids, #terminal outcomes, pending app WhoAreYou queries
vars == <<s, net, ps, submitted, outcome, wru>>

NoSess == [cur |-> 0, old |-> 0, awaiting |-> "none"]
Init ==
  /\ s = [sess |-> NoSess, chal |-> FALSE, active |-> {}, pend |-> <<>>, exp |-> 0, nn |-> 1, nk |-> 1, outs |-> <<>>]
  /\ net = {} /\ ps = [cur |-> 0, old |-> 0, chal |-> FALSE, b |-> [way |-> 2, unk |-> 1, hs |-> 2, dup |-> 1, lose |-> 1]]
  /\ submitted = {} /\ outcome = [r \in RIDS |-> 0] /\ wru = {}

\* ---------- helpers: all take and return the handler record (plus datagrams to send in .tx) ----------
Emit(st, ev)  == [st EXCEPT !.outs = Append(@, ev)]
Tx(st, d)     == [st EXCEPT !.tx = @ \cup {d}]
Fresh(st)     == st.nn
Awaiting(st)  == st.sess.cur = 0 /\ \E c \in st.active : c.init

FailSession(st, remove) ==
  LET st1 == IF remove THEN [st EXCEPT !.sess = NoSess] ELSE st
      pendExt == {st1.pend[i].rid : i \in 1..Len(st1.pend)} \ {INT}
      actExt  == {c.rid : c \in st1.active} \ {INT}
  IN [st1 EXCEPT !.pend = <<>>, !.exp = @ - Cardinality(st1.active), !.active = {},
                 !.failed = @ \cup [r \in pendExt \cup actExt |-> 1] ]   \* placeholder, replaced below

\* outcome accounting is done through st.fail (a sequence of rids reported failed in this step)
FailSession2(st, remove) ==
  LET st1 == IF remove THEN [st EXCEPT !.sess = NoSess] ELSE st
      pendR == [i \in 1..Len(st1.pend) |-> st1.pend[i].rid]
      actR  == {c.rid : c \in st1.active}
  IN [st1 EXCEPT !.pend = <<>>, !.exp = @ - Cardinality(st1.active), !.active = {},
                 !.fail = @ \o pendR \o (LET RECURSIVE S2Q(_) S2Q(S) == IF S = {} THEN <<>> ELSE LET x == CHOOSE x \in S : TRUE IN <<x>> \o S2Q(S \ {x}) IN S2Q(actR))]
FailRequest(st, c, remove) == FailSession2([st EXCEPT !.fail = Append(@, c.rid)], remove)

\* send_request
SendRequest(st, rid) ==
  IF st.chal \/ Awaiting(st) THEN [st EXCEPT !.pend = Append(@, [rid |-> rid])]
  ELSE LET n == st.nn IN
    IF st.sess.cur # 0
    THEN Tx([st EXCEPT !.nn = n + 1, !.exp = @ + 1,
                 !.active = @ \cup {[rid |-> rid, nonce |-> n, kind |-> "msg", key |-> st.sess.cur, hs |-> FALSE, retries |-> 1, init |-> FALSE, rem |-> 0]}],
            [to |-> "P", kind |-> "msg", nonce |-> n, key |-> st.sess.cur, body |-> [t |-> "req", rid |-> rid]])
    ELSE Tx([st EXCEPT !.nn = n + 1, !.exp = @ + 1,
                 !.active = @ \cup {[rid |-> rid, nonce |-> n, kind |-> "rand", key |-> 0, hs |-> FALSE, retries |-> 1, init |-> TRUE, rem |-> 0]}],
            [to |-> "P", kind |-> "rand", nonce |-> n, key |-> 0, body |-> [t |-> "none", rid |-> rid]])

RECURSIVE SendAll(_, _)
SendAll(st, q) == IF q = <<>> THEN st ELSE SendAll(SendRequest(st, Head(q).rid), Tail(q))
SendPending(st) == SendAll([st EXCEPT !.pend = <<>>], st.pend)

RECURSIVE ReplaySet(_, _)
ReplaySet(st, S) ==
  IF S = {} THEN st ELSE
  LET c == CHOOSE c \in S : \A d \in S : c.nonce <= d.nonce
      n == st.nn
      c2 == [c EXCEPT !.nonce = n, !.kind = "msg", !.key = st.sess.cur]
  IN ReplaySet(Tx([st EXCEPT !.nn = n + 1, !.active = (@ \ {c}) \cup {c2}],
                  [to |-> "P", kind |-> "msg", nonce |-> n, key |-> st.sess.cur, body |-> [t |-> "req", rid |-> c.rid]]), S \ {c})
NewSession(st, k, awaiting, skip) ==
  IF st.sess.cur # 0
  THEN LET st1 == [st EXCEPT !.sess = [cur |-> k, old |-> st.sess.cur, awaiting |-> awaiting]]
       IN ReplaySet(st1, {c \in st1.active : c.nonce # skip})
  ELSE SendPending([st EXCEPT !.sess = [cur |-> k, old |-> 0, awaiting |-> awaiting]])

HandleResponse(st, rid, total) ==
  IF \E c \in st.active : c.rid = rid
  THEN LET c == CHOOSE c \in st.active : c.rid = rid IN
       IF total > 1 /\ (IF c.rem = 0 THEN total - 1 ELSE c.rem - 1) # 0
       THEN [st EXCEPT !.active = (@ \ {c}) \cup {[c EXCEPT !.rem = IF c.rem = 0 THEN total - 1 ELSE c.rem - 1]}, !.part = Append(@, rid)]
       ELSE [st EXCEPT !.active = @ \ {c}, !.exp = @ - 1, !.done = Append(@, rid)]
  ELSE st

Begin(st) == [sess |-> st.sess, chal |-> st.chal, active |-> st.active, pend |-> st.pend, exp |-> st.exp, nn |-> st.nn, nk |-> st.nk,
              outs |-> <<>>, tx |-> {}, fail |-> <<>>, done |-> <<>>, part |-> <<>>, wq |-> {}]
RECURSIVE CountIn(_, _)
CountIn(q, r) == IF q = <<>> THEN 0 ELSE (IF Head(q) = r THEN 1 ELSE 0) + CountIn(Tail(q), r)
Commit(st) ==
  /\ s' = [sess |-> st.sess, chal |-> st.chal, active |-> st.active, pend |-> st.pend, exp |-> st.exp, nn |-> st.nn, nk |-> st.nk, outs |-> <<>>]
  /\ outcome' = [r \in RIDS |-> outcome[r] + CountIn(st.fail, r) + CountIn(st.done, r)]
  /\ wru' = wru \cup st.wq

\* ---------- handler actions ----------
AppRequest(r) == /\ r \in RIDS \ submitted /\ submitted' = submitted \cup {r}
                 /\ LET st == SendRequest(Begin(s), r) IN Commit(st) /\ net' = net \cup st.tx /\ UNCHANGED ps

AppWhoAreYou(n) == /\ n \in wru /\ UNCHANGED <<submitted, ps>>
                   /\ IF s.chal THEN Commit([Begin(s) EXCEPT !.wq = {}]) /\ net' = net /\ wru' = wru \ {n}
                      ELSE LET st == Tx([Begin(s) EXCEPT !.chal = TRUE, !.exp = @ + 1], [to |-> "P", kind |-> "way", nonce |-> n, key |-> 0, body |-> [t |-> "none", rid |-> "none"]])
                           IN s' = [sess |-> st.sess, chal |-> st.chal, active |-> st.active, pend |-> st.pend, exp |-> st.exp, nn |-> st.nn, nk |-> st.nk, outs |-> <<>>]
                              /\ outcome' = outcome /\ wru' = wru \ {n} /\ net' = net \cup st.tx

RecvWhoAreYou(d) ==
  /\ d \in net /\ d.to = "L" /\ d.kind = "way" /\ UNCHANGED <<submitted, ps>>
  /\ IF ~\E c \in s.active : c.nonce = d.nonce THEN UNCHANGED <<s, outcome, wru>> /\ net' = net \ {d}
     ELSE LET c == CHOOSE c \in s.active : c.nonce = d.nonce
              st0 == [Begin(s) EXCEPT !.active = @ \ {c}] IN
       IF c.hs THEN LET st == FailRequest(st0, c, TRUE) IN Commit(st) /\ net' = (net \ {d}) \cup st.tx
       ELSE LET k == st0.nk  n == st0.nn
                c2 == [c EXCEPT !.nonce = n, !.kind = "hs", !.key = k, !.hs = TRUE, !.init = IF HASENR THEN FALSE ELSE c.init]
                st1 == Tx([st0 EXCEPT !.nk = k + 1, !.nn = n + 1, !.active = @ \cup {c2}],
                          [to |-> "P", kind |-> "hs", nonce |-> n, key |-> k, body |-> [t |-> "req", rid |-> c.rid]])
                st2 == IF HASENR THEN st1 ELSE SendRequest(st1, INT)
                st3 == NewSession(st2, k, IF HASENR THEN "none" ELSE INT, n)
            IN Commit(st3) /\ net' = (net \ {d}) \cup st3.tx

\* handshake from the peer answering our WHOAREYOU. v \in {"ok","badsig","norec"}
RecvHandshake(d) ==
  /\ d \in net /\ d.to = "L" /\ d.kind = "hs" /\ UNCHANGED <<submitted, ps>>
  /\ IF ~s.chal THEN UNCHANGED <<s, outcome, wru>> /\ net' = net \ {d}
     ELSE LET st0 == [Begin(s) EXCEPT !.chal = FALSE] IN
       CASE d.v = "badsig" -> UNCHANGED <<s, outcome, wru>> /\ net' = net \ {d}
         [] d.v = "norec"  -> LET st == FailSession2(st0, TRUE) IN Commit(st) /\ net' = (net \ {d}) \cup st.tx
         [] OTHER -> LET st1 == NewSession([st0 EXCEPT !.exp = @ - 1], d.key, "none", 0)
                         \* then handle_message with the handshake's body (a request from P: reported, nothing else)
                     IN Commit(st1) /\ net' = (net \ {d}) \cup st1.tx

RecvMessage(d) ==
  /\ d \in net /\ d.to = "L" /\ d.kind \in {"msg", "rand"} /\ UNCHANGED <<submitted, ps>>
  /\ net' = (net \ {d}) \cup (IF FALSE THEN {} ELSE {})
  /\ IF s.sess.cur = 0 THEN Commit([Begin(s) EXCEPT !.wq = {d.nonce}])
     ELSE IF d.kind = "msg" /\ d.key \in {s.sess.cur, s.sess.old} /\ d.key # 0
     THEN LET st0 == IF d.key = s.sess.cur THEN Begin(s) ELSE [Begin(s) EXCEPT !.sess.cur = s.sess.old, !.sess.old = s.sess.cur] IN
          IF d.body.t = "resp"
          THEN IF st0.sess.awaiting = d.body.rid
               THEN \* the ENR answer: verified -> Established and RETURN (request stays active!)
                    Commit([st0 EXCEPT !.sess.awaiting = "none"])
               ELSE Commit(HandleResponse(st0, d.body.rid, d.body.total))
          ELSE Commit(st0)
     ELSE LET st == FailSession2(Begin(s), TRUE) IN Commit([st EXCEPT !.wq = IF s.chal THEN {} ELSE {d.nonce}])

RequestTimer(c) ==
  /\ c \in s.active /\ UNCHANGED <<submitted, ps>>
  /\ IF c.retries >= RETRIES
     THEN LET st == FailRequest([Begin(s) EXCEPT !.active = @ \ {c}, !.exp = @ - 1], c, FALSE) IN Commit(st) /\ net' = net \cup st.tx
     ELSE LET st == [Begin(s) EXCEPT !.active = (@ \ {c}) \cup {[c EXCEPT !.retries = @ + 1]}] IN
          Commit(st) /\ net' = net \cup {[to |-> "P", kind |-> c.kind, nonce |-> c.nonce, key |-> c.key, body |-> [t |-> IF c.kind = "rand" THEN "none" ELSE "req", rid |-> c.rid]]}

ChallengeTimer ==
  /\ s.chal /\ UNCHANGED <<submitted, ps>>
  /\ LET st == SendPending([Begin(s) EXCEPT !.chal = FALSE, !.exp = @ - 1]) IN Commit(st) /\ net' = net \cup st.tx

\* ---------- honest peer: reacts at delivery, environment moves are budgeted ----------
Way(n)  == [to |-> "L", kind |-> "way", nonce |-> n, key |-> 0, body |-> [t |-> "none", rid |-> "none"]]
Resp(d, total) == [to |-> "L", kind |-> "msg", nonce |-> 100 + d.nonce, key |-> ps.cur, body |-> [t |-> "resp", rid |-> d.body.rid, total |-> total]]
PDeliver(d) ==
  /\ d \in net /\ d.to = "P" /\ UNCHANGED <<s, submitted, outcome, wru>>
  /\ \E keep \in {FALSE} \cup (IF ps.b.dup > 0 THEN {TRUE} ELSE {}) :
     LET base == IF keep THEN net ELSE net \ {d}
         b1   == IF keep THEN [ps.b EXCEPT !.dup = @ - 1] ELSE ps.b
         p1   == IF d.kind = "hs" THEN [ps EXCEPT !.cur = d.key, !.old = ps.cur, !.b = b1]
                 ELSE IF d.kind = "way" THEN [ps EXCEPT !.chal = TRUE, !.b = b1] ELSE [ps EXCEPT !.b = b1]
         readable == d.kind \in {"msg", "hs"} /\ d.key \in {p1.cur, p1.old} /\ d.key # 0 /\ d.body.t = "req"
     IN \/ ps' = p1 /\ net' = base                                             \* silence / loss
        \/ /\ d.kind # "way" /\ p1.b.way > 0                                   \* WHOAREYOU (also a second one)
           /\ ps' = [p1 EXCEPT !.b.way = @ - 1] /\ net' = base \cup {Way(d.nonce)}
        \/ /\ readable /\ \E t \in {1, 2} :
              ps' = p1 /\ net' = base \cup {[to |-> "L", kind |-> "msg", nonce |-> 100 + d.nonce, key |-> p1.cur, body |-> [t |-> "resp", rid |-> d.body.rid, total |-> t]]}
PSendUnknown ==
  /\ ps.b.unk > 0 /\ UNCHANGED <<s, submitted, outcome, wru>>
  /\ ps' = [ps EXCEPT !.b.unk = @ - 1]
  /\ net' = net \cup {[to |-> "L", kind |-> "rand", nonce |-> 200, key |-> 0, body |-> [t |-> "none", rid |-> "none"]]}
PHandshake(v) ==
  /\ ps.chal /\ ps.b.hs > 0
  /\ LET k == s.nk IN
     /\ s' = [s EXCEPT !.nk = k + 1]
     /\ ps' = IF v = "ok" THEN [ps EXCEPT !.cur = k, !.old = ps.cur, !.chal = FALSE, !.b.hs = @ - 1] ELSE [ps EXCEPT !.b.hs = @ - 1]
     /\ net' = net \cup {[to |-> "L", kind |-> "hs", nonce |-> 300 + k, key |-> k, v |-> v, body |-> [t |-> "req", rid |-> "preq"]]}
  /\ UNCHANGED <<submitted, outcome, wru>>
PLose == ps.b.lose > 0 /\ ps' = [ps EXCEPT !.cur = 0, !.old = 0, !.b.lose = @ - 1] /\ UNCHANGED <<s, net, submitted, outcome, wru>>

Next ==
  \/ \E r \in RIDS : AppRequest(r)
  \/ \E n \in wru : AppWhoAreYou(n)
  \/ \E d \in net : RecvWhoAreYou(d) \/ RecvHandshake(d) \/ RecvMessage(d) \/ PDeliver(d)
  \/ \E c \in s.active : RequestTimer(c)
  \/ ChallengeTimer
  \/ PSendUnknown \/ \E v \in {"ok", "badsig", "norec"} : PHandshake(v) \/ PLose
Spec == Init /\ [][Next]_vars


Bound == s.nn <= MAXN /\ s.nk <= 4 /\ Cardinality(net) <= 4
\* ---------- properties ----------
ExemptInv  == s.exp = Cardinality(s.active) + (IF s.chal THEN 1 ELSE 0)
OutcomeInv == \A r \in RIDS : outcome[r] <= 1
Tracked(r) == (\E c \in s.active : c.rid = r) \/ (\E i \in 1..Len(s.pend) : s.pend[i].rid = r)
ExactlyOne == \A r \in submitted : (outcome[r] = 1) # Tracked(r)
NoOrphanPending == s.pend # <<>> => (s.chal \/ Awaiting(s))
NoStaleInternal == (\E c \in s.active : c.rid = INT) => s.sess.awaiting = INT \/ s.sess.cur = 0
====
