SPECIFICATION Spec
CONSTANTS V = 5 MIN = 2 D = 2 ADDRS = {"A", "B", "C"}
INVARIANT SeqBound
PROPERTY UpdateAct
CONSTRAINT SeqBound
CHECK_DEADLOCK FALSE
