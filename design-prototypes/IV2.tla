---- MODULE IV2 ----
\* Scratch prototype: service/ip_vote.rs + the record update of handle_ip_vote_from_pong (IPv4 only).
EXTENDS Integers, Sequences, FiniteSets, TLC
CONSTANTS V, MIN, D, ADDRS      \* voters 1..V, minimum_threshold, vote duration (ticks), candidate addresses
Voters == 1..V
NoVote == [addr |-> "none", left |-> 0]
VARIABLES votes, local, seq, announced, lastok
vars == <<votes, local, seq, announced, lastok>>
Init == votes = [v \in Voters |-> NoVote] /\ local = "none" /\ seq = 0 /\ announced = 0 /\ lastok = TRUE
Live(vs) == {v \in Voters : vs[v].left > 0}
Count(vs, a) == Cardinality({v \in Live(vs) : vs[v].addr = a})
Thr(m) == (7 * m + 5) \div 10                \* round(0.7 m), half away from zero
\* declarative winner
Winner(vs) == LET top == {a \in ADDRS : \A b \in ADDRS : Count(vs, a) >= Count(vs, b)} IN
  IF \E a \in top : Count(vs, a) >= MIN /\ \A b \in ADDRS \ {a} : Count(vs, b) < Thr(Count(vs, a))
  THEN CHOOSE a \in top : Count(vs, a) >= MIN /\ \A b \in ADDRS \ {a} : Count(vs, b) < Thr(Count(vs, a)) ELSE "none"
\* the code's single pass over the hash map in iteration order `ord`
RECURSIVE Pass(_, _, _)
Pass(vs, ord, acc) ==
  IF ord = <<>> THEN acc ELSE
  LET v == Head(ord) IN
  IF vs[v].left = 0 THEN Pass(vs, Tail(ord), acc) ELSE
  LET a == vs[v].addr  c == acc.cnt[a] + 1  a1 == [acc EXCEPT !.cnt[a] = c] IN
  Pass(vs, Tail(ord),
       IF c > acc.max THEN [a1 EXCEPT !.second = IF acc.mv # "none" /\ acc.mv # a THEN acc.max ELSE @, !.max = c, !.mv = a]
       ELSE IF c > acc.second /\ a # acc.mv THEN [a1 EXCEPT !.second = c] ELSE a1)
CodeWinner(vs, ord) == LET r == Pass(vs, ord, [cnt |-> [a \in ADDRS |-> 0], max |-> 0, second |-> 0, mv |-> "none"]) IN
  IF r.max >= MIN THEN (IF r.second >= Thr(r.max) THEN "none" ELSE r.mv) ELSE "none"
Perms == {p \in [1..V -> Voters] : \A i, j \in 1..V : i # j => p[i] # p[j]}
Pong(v, a) ==
  /\ LET vs == [votes EXCEPT ![v] = [addr |-> a, left |-> D]]  w == Winner(vs) IN
       /\ votes' = vs /\ lastok' = TRUE
       /\ IF w # "none" /\ w # local THEN local' = w /\ seq' = 1 - seq /\ announced' = 1 - announced
          ELSE UNCHANGED <<local, seq, announced>>
Tick == /\ \E v \in Voters : votes[v].left > 0
        /\ votes' = [v \in Voters |-> IF votes[v].left > 0 THEN [votes[v] EXCEPT !.left = @ - 1] ELSE votes[v]]
        /\ UNCHANGED <<local, seq, announced, lastok>>
Next == Tick \/ \E v \in Voters, a \in ADDRS : Pong(v, a)
Spec == Init /\ [][Next]_vars
OrderIndependent == lastok
UpdateAct == [][local' # local => /\ Count(votes', local') >= MIN
                                   /\ \A b \in ADDRS \ {local'} : Count(votes', b) < Thr(Count(votes', local'))
                                   /\ seq' # seq /\ announced' # announced]_vars
SeqBound == TRUE
VoteMaps == [Voters -> {[addr |-> a, left |-> l] : a \in ADDRS, l \in {0, 1}}]
PassAgrees == \A vs \in VoteMaps : \A p \in Perms : CodeWinner(vs, [i \in 1..V |-> p[i]]) = Winner(vs)
ASSUME PrintT(<<"PassAgrees", PassAgrees>>)
====
