---- MODULE KB2 ----
\* Scratch prototype: kbucket/bucket.rs + kbucket.rs (insert_or_update, update_node, update_node_status, remove, iter)
EXTENDS Integers, Sequences, FiniteSets, TLC
CONSTANTS K,           \* MAX_NODES_PER_BUCKET
          MAXIN,       \* max_incoming
          BL, TL,      \* per-bucket / per-table subnet limits (0 = filters off)
          PT,          \* pending timeout in ticks
          KEYS, SUBS, VERS
Keys == KEYS
BucketOf(k) == IF k \in {"a1", "a2", "a3", "a4"} THEN 1 ELSE 2
Buckets == {1, 2}
Subs == SUBS
Vals == [k : Keys, sub : Subs, ver : VERS]
States == {"C", "D"}   Dirs == {"I", "O"}
NoPend == [on |-> FALSE]
VARIABLES tb,          \* [Buckets -> [nodes : Seq(node), fcp : Int (-1 = None), pend : NoPend or [on, node, at]]]
          dummy
vars == <<tb, dummy>>
now == 0
Node(k, v, st, dr, stamp) == [key |-> k, val |-> v, st |-> st, dr |-> dr, stamp |-> stamp]
Init == tb = [b \in Buckets |-> [nodes |-> <<>>, fcp |-> -1, pend |-> NoPend]] /\ dummy = 0

\* ---------- sequence helpers ----------
RemoveAt(q, i) == SubSeq(q, 1, i - 1) \o SubSeq(q, i + 1, Len(q))      \* i is 1-based
InsertAt(q, i, x) == SubSeq(q, 1, i - 1) \o <<x>> \o SubSeq(q, i, Len(q))  \* x ends at position i
Pos(bk, k) == IF \E i \in 1..Len(bk.nodes) : bk.nodes[i].key = k THEN CHOOSE i \in 1..Len(bk.nodes) : bk.nodes[i].key = k ELSE 0
SubCount(vals, v) == Cardinality({i \in 1..Len(vals) : vals[i] # v /\ vals[i].sub = v.sub})
IpFilter(v, vals, limit) == IF v.sub = "n" \/ limit = 0 THEN TRUE ELSE SubCount(vals, v) < limit
BVals(bk) == [i \in 1..Len(bk.nodes) |-> bk.nodes[i].val]
MaxIncoming(bk) == Cardinality({i \in 1..Len(bk.nodes) : bk.nodes[i].st = "C" /\ bk.nodes[i].dr = "I"}) >= MAXIN

\* ---------- bucket.rs ----------
\* insert: returns [bk, res]
BInsert(bk, node, t) ==
  IF Pos(bk, node.key) # 0 THEN [bk |-> bk, res |-> "NodeExists"]
  ELSE IF ~IpFilter(node.val, BVals(bk), BL) THEN [bk |-> bk, res |-> "FailedFilter"]
  ELSE LET insPend == bk.pend.on /\ bk.pend.node.key = node.key IN
    IF node.st = "C" THEN
       IF node.dr = "I" /\ MaxIncoming(bk) THEN [bk |-> bk, res |-> "TooManyIncoming"]
       ELSE IF Len(bk.nodes) = K THEN
            IF bk.fcp = 0 \/ bk.pend.on THEN [bk |-> bk, res |-> "Full"]
            ELSE [bk |-> [bk EXCEPT !.pend = [on |-> TRUE, node |-> node, at |-> PT]], res |-> "Pending"]
       ELSE [bk |-> [bk EXCEPT !.nodes = Append(@, node), !.fcp = IF @ = -1 THEN Len(bk.nodes) ELSE @,
                               !.pend = IF insPend THEN NoPend ELSE @], res |-> "Inserted"]
    ELSE IF Len(bk.nodes) = K THEN [bk |-> bk, res |-> "Full"]
       ELSE IF bk.fcp # -1
            THEN [bk |-> [bk EXCEPT !.nodes = InsertAt(@, bk.fcp + 1, node), !.fcp = @ + 1, !.pend = IF insPend THEN NoPend ELSE @], res |-> "Inserted"]
            ELSE [bk |-> [bk EXCEPT !.nodes = Append(@, node), !.pend = IF insPend THEN NoPend ELSE @], res |-> "Inserted"]

\* apply_pending: returns bucket
BApply(bk, t) ==
  IF ~bk.pend.on THEN bk
  ELSE IF bk.pend.at > 0 THEN bk
  ELSE LET p == [bk.pend.node EXCEPT !.stamp = K + 5]  b0 == [bk EXCEPT !.pend = NoPend] IN
    IF Len(b0.nodes) = K THEN
       IF b0.nodes[1].st = "C" THEN b0
       ELSE IF ~IpFilter(p.val, BVals(b0), BL) THEN b0
       ELSE IF p.st = "C" /\ p.dr = "I" /\ MaxIncoming(b0) THEN b0
       ELSE IF p.st = "C"
            THEN [b0 EXCEPT !.nodes = Append(Tail(@), p), !.fcp = IF @ = -1 THEN K - 1 ELSE @ - 1]
            ELSE IF b0.fcp # -1
                 THEN [b0 EXCEPT !.nodes = InsertAt(Tail(@), b0.fcp - 1 + 1, p)]   \* insert_pos = fcp-1 (0-based) after removing head
                 ELSE [b0 EXCEPT !.nodes = Append(Tail(@), p)]
    ELSE BInsert(b0, p, t).bk

FcpAfterRemoval(bk, pos0) ==  \* pos0: 0-based removed position; bk.nodes already without it
  IF bk.fcp = -1 THEN -1 ELSE IF pos0 < bk.fcp THEN bk.fcp - 1 ELSE IF bk.fcp < Len(bk.nodes) THEN bk.fcp ELSE -1

BUpdateStatus(bk, k, st, dr, t, stamp) ==   \* dr = "-" means None
  LET i == Pos(bk, k) IN
  IF i # 0 THEN
    LET old == bk.nodes[i]
        nn  == [old EXCEPT !.st = st, !.dr = IF dr = "-" THEN @ ELSE dr, !.stamp = stamp]
        rest == RemoveAt(bk.nodes, i)
        fcp1 == IF old.st = "C" THEN (IF bk.fcp = i - 1 /\ i - 1 = Len(rest) THEN -1 ELSE bk.fcp)
                ELSE (IF bk.fcp = -1 THEN -1 ELSE bk.fcp - 1)     \* and_then(checked_sub(1)) : fcp>=1 here
        b1 == [bk EXCEPT !.nodes = rest, !.fcp = fcp1, !.pend = IF i = 1 /\ st = "C" THEN NoPend ELSE @]
        r  == BInsert(b1, nn, t)
    IN [bk |-> r.bk, res |-> IF r.res = "Inserted" THEN (IF old.st = nn.st /\ old.dr = nn.dr THEN "NotModified" ELSE IF old.st = "D" /\ st = "C" THEN "Promoted" ELSE "Updated")
                              ELSE "Failed"]
  ELSE IF bk.pend.on /\ bk.pend.node.key = k
       THEN [bk |-> [bk EXCEPT !.pend.node.st = st, !.pend.node.dr = IF dr = "-" THEN @ ELSE dr], res |-> "UpdatedPending"]
       ELSE [bk |-> bk, res |-> "Failed"]

BUpdateValue(bk, k, v) ==
  LET i == Pos(bk, k) IN
  IF i # 0 THEN
     IF bk.nodes[i].val = v THEN [bk |-> bk, res |-> "NotModified"]
     ELSE LET rest == [bk EXCEPT !.nodes = RemoveAt(@, i)] IN
          IF ~IpFilter(v, BVals(rest), BL)
          THEN [bk |-> [rest EXCEPT !.fcp = FcpAfterRemoval(rest, i - 1)], res |-> "Failed"]
          ELSE [bk |-> [bk EXCEPT !.nodes[i].val = v], res |-> "Updated"]
  ELSE IF bk.pend.on /\ bk.pend.node.key = k THEN [bk |-> [bk EXCEPT !.pend.node.val = v], res |-> "UpdatedPending"]
       ELSE [bk |-> bk, res |-> "Failed"]

BRemove(bk, k, t) ==
  LET i == Pos(bk, k) IN
  IF i = 0 THEN bk ELSE LET rest == [bk EXCEPT !.nodes = RemoveAt(@, i)] IN BApply([rest EXCEPT !.fcp = FcpAfterRemoval(rest, i - 1)], t)

\* ---------- kbucket.rs ----------
TableVals(t) == LET q1 == BVals(t[1]) q2 == BVals(t[2]) IN q1 \o q2
Dup(t, k, v) == LET i == Pos(t[BucketOf(k)], k) IN i # 0 /\ t[BucketOf(k)].nodes[i].val = v
PassTable(t, k, v) == TL = 0 \/ Dup(t, k, v) \/ IpFilter(v, TableVals(t), TL)
Rank(q, i) == Cardinality({j \in 1..Len(q) : q[j].stamp <= q[i].stamp})
Norm(bk) == [bk EXCEPT !.nodes = [i \in 1..Len(bk.nodes) |-> [bk.nodes[i] EXCEPT !.stamp = Rank(bk.nodes, i)]],
                       !.pend = IF bk.pend.on THEN [bk.pend EXCEPT !.node.stamp = 0] ELSE bk.pend]
clk == K + 5
Step(t2, what) == tb' = [b \in Buckets |-> Norm(t2[b])] /\ UNCHANGED dummy

InsertOrUpdate(k, v, st, dr) ==
  LET b == BucketOf(k)  pass == PassTable(tb, k, v)  bk0 == BApply(tb[b], now) IN
  IF ~pass THEN Step([tb EXCEPT ![b] = BRemove(bk0, k, now)], "iou")
  ELSE IF Pos(bk0, k) = 0 THEN Step([tb EXCEPT ![b] = BInsert(bk0, Node(k, v, st, dr, clk), now).bk], "iou")
  ELSE LET r1 == BUpdateStatus(bk0, k, st, dr, now, clk) IN
       IF r1.res = "Failed" THEN Step([tb EXCEPT ![b] = r1.bk], "iou")
       ELSE Step([tb EXCEPT ![b] = BUpdateValue(r1.bk, k, v).bk], "iou")
UpdateNode(k, v) ==     \* state = None (as used by service::discovered)
  LET b == BucketOf(k)  pass == PassTable(tb, k, v)  bk0 == BApply(tb[b], now) IN
  IF ~pass THEN Step([tb EXCEPT ![b] = BRemove(bk0, k, now)], "un")
  ELSE Step([tb EXCEPT ![b] = BUpdateValue(bk0, k, v).bk], "un")
UpdateNodeStatus(k, st, dr) == LET b == BucketOf(k) IN Step([tb EXCEPT ![b] = BUpdateStatus(BApply(tb[b], now), k, st, dr, now, clk).bk], "uns")
Remove(k) == LET b == BucketOf(k) IN Step([tb EXCEPT ![b] = BRemove(BApply(tb[b], now), k, now)], "rm")
Iter == Step([b \in Buckets |-> BApply(tb[b], now)], "iter")
Tick == /\ \E b \in Buckets : tb[b].pend.on /\ tb[b].pend.at > 0
        /\ tb' = [b \in Buckets |-> IF tb[b].pend.on /\ tb[b].pend.at > 0 THEN [tb[b] EXCEPT !.pend.at = @ - 1] ELSE tb[b]] /\ UNCHANGED dummy

Next == \/ \E v \in Vals, st \in States, dr \in Dirs : InsertOrUpdate(v.k, v, st, dr)
        \/ \E v \in Vals : UpdateNode(v.k, v)
        \/ \E k \in Keys, st \in States, dr \in Dirs \cup {"-"} : UpdateNodeStatus(k, st, dr)
        \/ \E k \in Keys : Remove(k)
        \/ Iter
        \/ Tick
Spec == Init /\ [][Next]_vars

\* ---------- C07 / C16 ----------
Ns(b) == tb[b].nodes
Cap      == \A b \in Buckets : Len(Ns(b)) <= K
Place    == \A b \in Buckets : \A i \in 1..Len(Ns(b)) : BucketOf(Ns(b)[i].key) = b
AllKeys(b) == [i \in 1..Len(Ns(b)) |-> Ns(b)[i].key] \o (IF tb[b].pend.on THEN <<tb[b].pend.node.key>> ELSE <<>>)
Unique   == \A b \in Buckets : \A i, j \in 1..Len(AllKeys(b)) : i # j => AllKeys(b)[i] # AllKeys(b)[j]
FcpOk    == \A b \in Buckets : LET f == tb[b].fcp n == Len(Ns(b)) IN
              /\ (f = -1 => \A i \in 1..n : Ns(b)[i].st = "D")
              /\ (f # -1 => f < n /\ \A i \in 1..n : (Ns(b)[i].st = "C") <=> (i - 1 >= f))
Order    == \A b \in Buckets : \A i, j \in 1..Len(Ns(b)) :
              i < j => /\ ~(Ns(b)[i].st = "C" /\ Ns(b)[j].st = "D")
                       /\ (Ns(b)[i].st = Ns(b)[j].st => Ns(b)[i].stamp <= Ns(b)[j].stamp)
Incoming == \A b \in Buckets : Cardinality({i \in 1..Len(Ns(b)) : Ns(b)[i].st = "C" /\ Ns(b)[i].dr = "I"}) <= MAXIN
C07 == Cap /\ Place /\ Unique /\ FcpOk /\ Order /\ Incoming
CountS(q) == Cardinality({i \in 1..Len(q) : q[i].sub = "s"})
C16 == /\ (BL > 0 => \A b \in Buckets : CountS(BVals(tb[b])) <= BL)
       /\ (TL > 0 => CountS(TableVals(tb)) <= TL)
====
