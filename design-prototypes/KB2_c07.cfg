SPECIFICATION Spec
CONSTANTS K = 2 MAXIN = 1 BL = 0 TL = 0 PT = 1 KEYS = {"a1","a2","a3","b1"} SUBS = {"n"} VERS = {1,2}
INVARIANT C07
CHECK_DEADLOCK FALSE
