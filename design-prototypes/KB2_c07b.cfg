SPECIFICATION Spec
CONSTANTS K = 3 MAXIN = 1 BL = 0 TL = 0 PT = 1 KEYS = {"a1","a2","a3","a4","b1"} SUBS = {"n"} VERS = {1,2}
INVARIANT C07
CHECK_DEADLOCK FALSE
