SPECIFICATION Spec
CONSTANTS K = 2 MAXIN = 2 BL = 2 TL = 2 PT = 1 KEYS = {"a1","a2","a3","b1","b2"} SUBS = {"s","n"} VERS = {1}
INVARIANT C16
CHECK_DEADLOCK FALSE
