SPECIFICATION Spec
CONSTANTS BURST = 1 PERIOD = 3 H = 9 MAXARR = 8
INVARIANT All
CHECK_DEADLOCK FALSE
