---- MODULE LM ----
\* Scratch prototype: socket/filter/rate_limiter.rs Limiter (GCRA), one key; a second copy is pruned at arbitrary times.
EXTENDS Integers, Sequences, FiniteSets, TLC
CONSTANTS BURST, PERIOD, H, MAXARR
T == PERIOD \div BURST
VARIABLES now, tatA, tatB, passed, arrivals, refused, agree     \* tat = -1: key absent
vars == <<now, tatA, tatB, passed, arrivals, refused, agree>>
Init == now = 0 /\ tatA = -1 /\ tatB = -1 /\ passed = <<>> /\ arrivals = <<>> /\ refused = FALSE /\ agree = TRUE
Allows(tat) == LET t0 == IF tat = -1 THEN now ELSE tat
                   earliest == IF t0 + T - PERIOD < 0 THEN 0 ELSE t0 + T - PERIOD
               IN IF now < earliest THEN [ok |-> FALSE, tat |-> t0] ELSE [ok |-> TRUE, tat |-> (IF now > t0 THEN now ELSE t0) + T]
Arrive == /\ Len(arrivals) < MAXARR
          /\ LET a == Allows(tatA)  b == Allows(tatB) IN
             /\ tatA' = a.tat /\ tatB' = b.tat /\ agree' = (agree /\ a.ok = b.ok)
             /\ arrivals' = Append(arrivals, now)
             /\ passed' = IF a.ok THEN Append(passed, now) ELSE passed
             /\ refused' = (refused \/ ~a.ok)
          /\ UNCHANGED now
Prune == tatB # -1 /\ tatB' = (IF tatB >= now THEN tatB ELSE -1) /\ UNCHANGED <<now, tatA, passed, arrivals, refused, agree>>
Tick == now < H /\ now' = now + 1 /\ UNCHANGED <<tatA, tatB, passed, arrivals, refused, agree>>
Next == Arrive \/ Prune \/ Tick
Spec == Init /\ [][Next]_vars
Within(q) == \A i, j \in 1..Len(q) : i <= j => (j - i + 1) <= BURST + ((q[j] - q[i]) \div T)
WindowInv == Within(passed)
ConformingNeverRefused == Within(arrivals) => ~refused
PruneNeutral == agree
All == WindowInv /\ ConformingNeverRefused /\ PruneNeutral
====
