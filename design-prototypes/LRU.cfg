SPECIFICATION Spec
CONSTANTS KEYS = {1, 2, 3} CAP = 2 TTL = 2 FIXED = TRUE
INVARIANTS NoStale Bound AgeOrdered
PROPERTY EvictLRU
CHECK_DEADLOCK FALSE
