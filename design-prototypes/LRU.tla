---- MODULE LRU ----
\* Scratch prototype: lru_time_cache.rs. Order = sequence of [k, age]; age in ticks since last insert/get.
EXTENDS Integers, Sequences, FiniteSets, TLC
CONSTANTS KEYS, CAP, TTL, FIXED
VARIABLES q, ret, evicted       \* q: front = least recently used; ret: last lookup result [hit, age]
vars == <<q, ret, evicted>>
Init == q = <<>> /\ ret = [hit |-> FALSE, age |-> 0] /\ evicted = 0
Idx(k) == IF \E i \in 1..Len(q) : q[i].k = k THEN CHOOSE i \in 1..Len(q) : q[i].k = k ELSE 0
Without(i) == SubSeq(q, 1, i - 1) \o SubSeq(q, i + 1, Len(q))
Insert(k) == LET i == Idx(k)  base == IF i = 0 THEN q ELSE Without(i)  q1 == Append(base, [k |-> k, age |-> 0]) IN
             /\ IF Len(q1) > CAP THEN q' = Tail(q1) /\ evicted' = Head(q1).k ELSE q' = q1 /\ evicted' = 0
             /\ ret' = [hit |-> FALSE, age |-> 0]
GetMut(k) == LET i == Idx(k) IN
             /\ evicted' = 0
             /\ IF i = 0 \/ (FIXED /\ q[i].age > TTL)
                THEN ret' = [hit |-> FALSE, age |-> 0] /\ q' = IF i # 0 THEN Without(i) ELSE q
                ELSE ret' = [hit |-> TRUE, age |-> q[i].age] /\ q' = Append(Without(i), [k |-> k, age |-> 0])
RECURSIVE DropExpired(_)
DropExpired(s) == IF s # <<>> /\ Head(s).age > TTL THEN DropExpired(Tail(s)) ELSE s
RemoveExpired == q' = DropExpired(q) /\ ret' = [hit |-> FALSE, age |-> 0] /\ evicted' = 0
Remove(k) == LET i == Idx(k) IN q' = (IF i = 0 THEN q ELSE Without(i)) /\ ret' = [hit |-> FALSE, age |-> 0] /\ evicted' = 0
Tick == /\ \E i \in 1..Len(q) : q[i].age <= TTL
        /\ q' = [i \in 1..Len(q) |-> [q[i] EXCEPT !.age = IF @ <= TTL THEN @ + 1 ELSE @]] /\ ret' = [hit |-> FALSE, age |-> 0] /\ evicted' = 0
Next == Tick \/ RemoveExpired \/ \E k \in KEYS : Insert(k) \/ GetMut(k) \/ Remove(k)
Spec == Init /\ [][Next]_vars
NoStale == ret.hit => ret.age <= TTL
Bound   == Len(q) <= CAP
AgeOrdered == \A i, j \in 1..Len(q) : i < j => q[i].age >= q[j].age        \* front is least recently used
EvictLRU == [][evicted' # 0 => (Len(q) >= 1 /\ evicted' = q[1].k)]_vars
====
