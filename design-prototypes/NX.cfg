SPECIFICATION Spec
CONSTANTS B = 3 SIZE = 3 FIXED = TRUE MAXR = 3 MAXN = 4
INVARIANT PacketCap
CHECK_DEADLOCK FALSE
