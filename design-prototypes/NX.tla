---- MODULE NX ----
\* Scratch prototype: query_info.rs::findnode_log2distance, service.rs::send_nodes_response (honest responder),
\* service.rs::handle_rpc_response(Nodes) filter/ban, packet counting, and the split arithmetic. Pure functions -> ASSUMEs.
EXTENDS Integers, Sequences, FiniteSets, Bitwise, TLC
CONSTANTS B,        \* id bits (distances 0..B stand for 0..256)
          SIZE,     \* DISTANCES_TO_REQUEST_PER_PEER
          FIXED
Ids == 0..(2^B - 1)
Log2(a, b) == LET d == a ^^ b IN IF d = 0 THEN 0 ELSE (CHOOSE i \in 1..B : 2^(i-1) <= d /\ d < 2^i)
\* ---- findnode_log2distance(target, peer, SIZE), None -> [0]
RECURSIVE Build(_, _, _)
Build(dist, diff, acc) ==
  IF Len(acc) >= SIZE THEN SubSeq(acc, 1, SIZE) ELSE
  LET a1 == IF dist + diff <= B THEN Append(acc, dist + diff) ELSE acc
      a2 == IF Len(a1) < SIZE /\ dist - diff >= 0 THEN Append(a1, dist - diff) ELSE a1
  IN Build(dist, diff + 1, a2)
ReqDistances(target, peer) == IF Log2(target, peer) = 0 THEN <<0>> ELSE Build(Log2(target, peer), 1, <<Log2(target, peer)>>)
DSet(ds) == {ds[i] : i \in 1..Len(ds)}
\* ---- honest responder with table T (set of ids, not containing itself), asked by `me`
Honest(resp, T, ds, me) == (IF 0 \in DSet(ds) THEN {resp} ELSE {}) \cup {n \in T : Log2(resp, n) \in DSet(ds) /\ n # me /\ Log2(resp, n) # 0}
\* ---- handle_rpc_response: returns [accepted, banned]
Handle(resp, ds, nodes) ==
  IF ~FIXED /\ Len(ds) = 1 /\ ds[1] = 0
  THEN IF Cardinality(nodes) > 1 THEN [accepted |-> nodes \cap {resp}, banned |-> TRUE] ELSE [accepted |-> nodes, banned |-> FALSE]
  ELSE LET keep == {n \in nodes : IF n = resp THEN (FIXED /\ 0 \in DSet(ds)) ELSE Log2(resp, n) \in DSet(ds)} IN
       [accepted |-> keep, banned |-> keep # nodes]
Want(resp, ds, nodes) == {n \in nodes : (n = resp /\ 0 \in DSet(ds)) \/ (n # resp /\ Log2(resp, n) \in DSet(ds))}
\* C11 obligations over all (me, target, peer, table / answer)
HonestNeverBanned == \A me \in Ids, target \in Ids : \A peer \in Ids \ {me} : \A T \in SUBSET (Ids \ {peer}) :
                        ~Handle(peer, ReqDistances(target, peer), Honest(peer, T, ReqDistances(target, peer), me)).banned
AcceptedExact == \A target \in Ids, peer \in Ids : \A nodes \in SUBSET Ids :
                   LET ds == ReqDistances(target, peer)  h == Handle(peer, ds, nodes) IN
                   h.accepted = Want(peer, ds, nodes) /\ (h.banned <=> nodes # Want(peer, ds, nodes))
ASSUME PrintT(<<"HonestNeverBanned", HonestNeverBanned>>)
ASSUME PrintT(<<"AcceptedExact", AcceptedExact>>)
ASSUME PrintT(<<"example request for adjacent ids", ReqDistances(2, 3), "for equal ids", ReqDistances(3, 3)>>)
\* ---- C14 split arithmetic: sizes of encoded records -> packets; wire size = payload + 104 (id 8 bytes, total < 128)
RECURSIVE Split(_, _, _)
Split(sizes, cur, acc) == IF sizes = <<>> THEN Append(acc, cur) ELSE
  IF Head(sizes) + cur < 1280 - 104 THEN Split(Tail(sizes), cur + Head(sizes), acc) ELSE Split(Tail(sizes), Head(sizes), Append(acc, cur))
SeqsUpTo(S, n) == UNION {[1..k -> S] : k \in 1..n}
SplitOk == \A q \in SeqsUpTo({63, 120, 299, 300}, 7) : \A i \in 1..Len(Split(q, 0, <<>>)) : Split(q, 0, <<>>)[i] + 104 <= 1280
ASSUME PrintT(<<"SplitOk", SplitOk>>)
\* ---- packet counting (dynamic): MAXR stands for MAX_NODES_RESPONSES, MAXN for max_nodes_response
CONSTANTS MAXR, MAXN
VARIABLES count, got, active, collected
vars == <<count, got, active, collected>>
Init == count = 0 /\ got = 0 /\ active = TRUE /\ collected = 0
Packet(total, n) ==
  /\ IF ~active THEN UNCHANGED vars       \* "doesn't match a request": ignored
     ELSE /\ collected' = collected + 1
          /\ IF total > 1
             THEN LET c == IF count = 0 THEN 1 ELSE count IN
                  IF got < MAXN /\ c < total /\ c < MAXR
                  THEN count' = c + 1 /\ got' = got + n /\ active' = TRUE
                  ELSE count' = c /\ got' = got + n /\ active' = FALSE
             ELSE count' = count /\ got' = n /\ active' = FALSE
Next == \E total \in {0, 1, 2, 3, 9}, n \in 0..2 : Packet(total, n)
Spec == Init /\ [][Next]_vars
PacketCap == collected <= MAXR
====
