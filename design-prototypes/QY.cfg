SPECIFICATION Spec
CONSTANTS N = 5 PAR = 2 NR = 3 PTO = 1 QTO = 4
INVARIANT C0910
PROPERTY Terminates
CHECK_DEADLOCK FALSE
