---- MODULE QY ----
\* Scratch prototype: query_pool/peers/closest.rs (FindNodeQuery) + pool timeout. Peer p is at distance p from the target.
EXTENDS Integers, Sequences, FiniteSets, TLC
CONSTANTS N, PAR, NR, PTO, QTO       \* peers 1..N, parallelism, num_results, peer timeout, query timeout (ticks)
Peers == 1..N
VARIABLES st,        \* [Peers -> {"unk","NC","W","U","F","S"}]
          dl,        \* [Peers -> remaining ticks while W]
          nw, prog, np, everStalled, contacted, elapsed, done, inited
vars == <<st, dl, nw, prog, np, everStalled, contacted, elapsed, done, inited>>
Init == /\ st = [p \in Peers |-> "unk"] /\ dl = [p \in Peers |-> 0] /\ nw = 0 /\ prog = "It" /\ np = 0 /\ everStalled = FALSE
        /\ contacted = [p \in Peers |-> 0] /\ elapsed = 0 /\ done = "no" /\ inited = FALSE
\* with_config: the first NR of the known closest peers
Start(S) == /\ ~inited /\ S # {} /\ inited' = TRUE
            /\ LET keep == {p \in S : Cardinality({q \in S : q < p}) < NR} IN st' = [p \in Peers |-> IF p \in keep THEN "NC" ELSE "unk"]
            /\ UNCHANGED <<dl, nw, prog, np, everStalled, contacted, elapsed, done>>
AtCap == IF prog = "St" THEN nw >= NR ELSE IF prog = "It" THEN nw >= PAR ELSE TRUE
\* the loop of next(): acc = [st, dl, nw, rc (-1 = None), ret ("" = keep going), peer]
RECURSIVE Loop(_, _, _)
Loop(p, acc, atcap) ==
  IF p > N \/ acc.ret # "" THEN acc ELSE
  LET s == acc.st[p] IN
  IF s = "NC" THEN IF ~atcap THEN [acc EXCEPT !.st[p] = "W", !.dl[p] = PTO, !.nw = @ + 1, !.ret = "contact", !.peer = p]
                              ELSE [acc EXCEPT !.ret = "atcap"]
  ELSE IF s = "W" THEN IF acc.dl[p] = 0 THEN Loop(p + 1, [acc EXCEPT !.st[p] = "U", !.nw = @ - 1], atcap)
                       ELSE IF atcap THEN [acc EXCEPT !.ret = "atcap"]
                       ELSE Loop(p + 1, [acc EXCEPT !.rc = -1], atcap)
  ELSE IF s = "S" THEN IF acc.rc # -1 THEN IF acc.rc + 1 >= NR THEN [acc EXCEPT !.ret = "finished"] ELSE Loop(p + 1, [acc EXCEPT !.rc = @ + 1], atcap)
                       ELSE Loop(p + 1, acc, atcap)
  ELSE Loop(p + 1, acc, atcap)
Poll ==   \* QueryPool::poll -> query.next(now), plus the pool-level timeout
  /\ inited /\ done = "no"
  /\ IF prog = "Fin" THEN done' = "finished" /\ UNCHANGED <<st, dl, nw, prog, np, everStalled, contacted, elapsed, inited>>
     ELSE LET r == Loop(1, [st |-> st, dl |-> dl, nw |-> nw, rc |-> 0, ret |-> "", peer |-> 0], AtCap)
              fin == r.ret = "finished" \/ (r.ret = "" /\ r.nw = 0) IN
       /\ st' = r.st /\ dl' = r.dl /\ nw' = r.nw
       /\ prog' = IF fin THEN "Fin" ELSE prog
       /\ contacted' = IF r.ret = "contact" THEN [contacted EXCEPT ![r.peer] = @ + 1] ELSE contacted
       /\ done' = IF fin THEN "finished" ELSE IF r.ret # "contact" /\ elapsed >= QTO THEN "timeout" ELSE "no"
       /\ UNCHANGED <<np, everStalled, elapsed, inited>>
OnSuccess(p, new) ==
  /\ inited /\ done = "no" /\ prog # "Fin" /\ st[p] \in {"W", "U"}
  /\ nw' = IF st[p] = "W" THEN nw - 1 ELSE nw
  /\ LET known == {q \in Peers : st[q] # "unk"}
         st1 == [q \in Peers |-> IF q = p THEN "S" ELSE IF q \in new /\ st[q] = "unk" THEN "NC" ELSE st[q]]
         minAfter(lastp) == \A q \in Peers : st1[q] # "unk" => lastp <= q
     IN /\ st' = st1
        /\ \E progress \in IF new = {} THEN {FALSE} ELSE {minAfter(l) \/ Cardinality(known) < NR : l \in new} :
             IF prog = "It" THEN LET n2 == IF progress THEN 0 ELSE np + 1 IN
                                 IF n2 >= PAR THEN prog' = "St" /\ np' = 0 /\ everStalled' = TRUE ELSE prog' = "It" /\ np' = n2 /\ UNCHANGED everStalled
             ELSE IF progress THEN prog' = "It" /\ np' = 0 /\ UNCHANGED everStalled ELSE UNCHANGED <<prog, np, everStalled>>
  /\ UNCHANGED <<dl, contacted, elapsed, done, inited>>
OnFailure(p) ==
  /\ inited /\ done = "no" /\ prog # "Fin" /\ st[p] \in {"W", "U"}
  /\ st' = [st EXCEPT ![p] = "F"] /\ nw' = IF st[p] = "W" THEN nw - 1 ELSE nw
  /\ UNCHANGED <<dl, prog, np, everStalled, contacted, elapsed, done, inited>>
Tick == /\ inited /\ done = "no" /\ elapsed < QTO
        /\ elapsed' = elapsed + 1 /\ dl' = [p \in Peers |-> IF dl[p] > 0 THEN dl[p] - 1 ELSE 0]
        /\ UNCHANGED <<st, nw, prog, np, everStalled, contacted, done, inited>>
Next == \/ \E S \in SUBSET Peers : Start(S)
        \/ Poll \/ Tick
        \/ \E p \in Peers : OnFailure(p) \/ \E new \in SUBSET (Peers \ {p}) : OnSuccess(p, new)
Spec == Init /\ [][Next]_vars /\ WF_vars(Poll) /\ WF_vars(Tick)
\* ---- C09 ----
CapInv      == nw <= PAR \/ (everStalled /\ nw <= NR)
NwInv       == nw = Cardinality({p \in Peers : st[p] = "W"})
ContactOnce == \A p \in Peers : contacted[p] <= 1
Terminates  == inited ~> done # "no"
\* ---- C10 ----
Succ == {p \in Peers : st[p] = "S"}
Result == {p \in Succ : Cardinality({q \in Succ : q < p}) < NR}
Complete == done = "finished" /\ Cardinality(Result) < NR => \A p \in Peers : st[p] # "NC"
C0910 == CapInv /\ NwInv /\ ContactOnce /\ Complete
====
