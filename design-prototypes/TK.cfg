SPECIFICATION Spec
CONSTANT IDS = {"t1", "t2", "t3"}
INVARIANT OnceInv
CHECK_DEADLOCK FALSE
