---- MODULE TK ----
\* Scratch prototype: TalkRequest::{respond, Drop} + service shutdown (handler end dropped).
EXTENDS Integers, Sequences, FiniteSets, TLC
CONSTANTS IDS
VARIABLES st, sent, running, err, panicked
vars == <<st, sent, running, err, panicked>>
Init == st = [i \in IDS |-> "none"] /\ sent = [i \in IDS |-> <<>>] /\ running = TRUE /\ err = [i \in IDS |-> FALSE] /\ panicked = FALSE
Deliver(i) == running /\ st[i] = "none" /\ st' = [st EXCEPT ![i] = "held"] /\ UNCHANGED <<sent, running, err, panicked>>
\* respond(): sender.take().unwrap().send(..) ; then the object is dropped with sender = None
Respond(i) == /\ st[i] = "held" /\ st' = [st EXCEPT ![i] = "responded"] /\ UNCHANGED <<running, panicked>>
              /\ IF running THEN sent' = [sent EXCEPT ![i] = Append(@, "payload")] /\ UNCHANGED err
                 ELSE err' = [err EXCEPT ![i] = TRUE] /\ UNCHANGED sent
\* Drop without respond: sender is still Some -> empty answer
DropReq(i) == /\ st[i] = "held" /\ st' = [st EXCEPT ![i] = "dropped"] /\ UNCHANGED <<running, err, panicked>>
              /\ sent' = IF running THEN [sent EXCEPT ![i] = Append(@, "empty")] ELSE sent
Shutdown == running /\ running' = FALSE /\ UNCHANGED <<st, sent, err, panicked>>
Next == Shutdown \/ \E i \in IDS : Deliver(i) \/ Respond(i) \/ DropReq(i)
Spec == Init /\ [][Next]_vars
OnceInv == /\ ~panicked
           /\ \A i \in IDS : Len(sent[i]) <= 1
           /\ \A i \in IDS : st[i] = "responded" /\ ~err[i] => sent[i] = <<"payload">>
           /\ \A i \in IDS : st[i] = "dropped" /\ sent[i] # <<>> => sent[i] = <<"empty">>
====
