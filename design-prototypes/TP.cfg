SPECIFICATION Spec
CONSTANTS MODE = "dual" FIXED = TRUE
INVARIANT AdmitInv
PROPERTIES OnlyBySession SingleStack ReplaceRule
CHECK_DEADLOCK FALSE
