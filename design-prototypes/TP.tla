---- MODULE TP ----
\* Scratch prototype: admission / update policy of the routing table (service.rs, discv5.rs::add_enr, ipmode.rs, handler verify_enr).
EXTENDS Integers, FiniteSets, TLC
CONSTANTS MODE, FIXED          \* MODE \in {"ip4","ip6","dual"}
Ids == {"n1", "n2", "local"}
\* v4/v6: "none", "src" (equals the address the packets came from), "other"; v6 may also be "mapped"
Recs == [id : Ids, seq : {1, 2}, v4 : {"none", "src", "other"}, v6 : {"none", "src", "other", "mapped"}, pass : BOOLEAN]
None == [id |-> "none"]
VARIABLES table, how         \* table: [Ids -> rec or None]; how: last action label + the record involved
vars == <<table, how>>
Init == table = [i \in Ids |-> None] /\ how = [a |-> "init", r |-> None, fam |-> 0, dir |-> "-"]
Canon6(r) == r.v6 \in {"src", "other"}
Contactable(r) == CASE MODE = "ip4" -> r.v4 # "none" [] MODE = "ip6" -> Canon6(r) [] OTHER -> Canon6(r) \/ r.v4 # "none"
\* handler: verify_enr(record, node_address) for a handshake that came from an address of family fam
Verify(r, claimed, fam) == r.id = claimed /\ (IF fam = 4 THEN r.v4 \in {"none", "src"} ELSE r.v6 \in {"none", "src"})
MayFail(t1) == table' \in {t1, table}      \* bucket full / incoming limit / ip filter: the insert may be refused
Established(r, claimed, fam, dir) ==
  /\ (dir = "in" => Verify(r, claimed, fam))          \* otherwise the handler emits UnverifiableEnr instead
  /\ (dir = "out" => r.id = claimed)
  /\ how' = [a |-> "est", r |-> r, fam |-> fam, dir |-> dir]
  /\ IF ~Contactable(r) \/ (FIXED /\ ~r.pass) \/ r.id = "local" THEN UNCHANGED table
     ELSE MayFail([table EXCEPT ![r.id] = r])
Unverifiable(claimed) == how' = [a |-> "unv", r |-> None, fam |-> 0, dir |-> "-"] /\ table' = [table EXCEPT ![claimed] = None]
Discovered(r) ==
  /\ how' = [a |-> "disc", r |-> r, fam |-> 0, dir |-> "-"]
  /\ IF r.id = "local" THEN UNCHANGED table
     ELSE IF r.pass /\ Contactable(r)
          THEN IF table[r.id] # None /\ table[r.id].seq < r.seq THEN table' \in {[table EXCEPT ![r.id] = r], [table EXCEPT ![r.id] = None]} ELSE UNCHANGED table
          ELSE IF table[r.id] # None /\ table[r.id].seq < r.seq THEN table' = [table EXCEPT ![r.id] = None] ELSE UNCHANGED table
AddEnr(r) == /\ how' = [a |-> "add", r |-> r, fam |-> 0, dir |-> "-"]
             /\ IF Contactable(r) /\ r.pass /\ r.id # "local" THEN MayFail([table EXCEPT ![r.id] = r]) ELSE UNCHANGED table
Remove(i) == how' = [a |-> "rm", r |-> None, fam |-> 0, dir |-> "-"] /\ table' = [table EXCEPT ![i] = None]
Next == \/ \E r \in Recs, c \in Ids \ {"local"}, fam \in {4, 6}, dir \in {"in", "out"} : Established(r, c, fam, dir)
        \/ \E r \in Recs : Discovered(r) \/ AddEnr(r)
        \/ \E i \in Ids : Remove(i) \/ Unverifiable(i)
Spec == Init /\ [][Next]_vars
AdmitInv == \A i \in Ids : table[i] # None => table[i].id = i /\ i # "local" /\ Contactable(table[i]) /\ table[i].pass
OnlyBySession == [][\A i \in Ids : table[i] = None /\ table'[i] # None => how'.a \in {"est", "add"}]_vars
SingleStack == [][\A i \in Ids : MODE # "dual" /\ table'[i] # table[i] /\ table'[i] # None /\ how'.a = "est" /\ how'.dir = "in"
                     => (IF how'.fam = 4 THEN table'[i].v4 ELSE table'[i].v6) \in {"src"} \/ (MODE = "ip4" /\ how'.fam = 6) \/ (MODE = "ip6" /\ how'.fam = 4)]_vars
ReplaceRule == [][\A i \in Ids : how'.a = "disc" /\ table[i] # None /\ table'[i] # None /\ table'[i] # table[i]
                     => table'[i].id = i /\ table'[i].seq > table[i].seq /\ Contactable(table'[i]) /\ table'[i].pass]_vars
====
