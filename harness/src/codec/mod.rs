//! Concretisers for the codec specifications (spec/PacketCodec.tla, spec/RpcCodec.tla): an abstract
//! case (a record of validity classes emitted by TLC) becomes `k` seeded byte strings built with
//! INDEPENDENT hand-written encoders (own AES-128-CTR header masking, own RLP, the discv5.1 wire
//! layout); the real decoder / encoder of the crate runs on them inside `util::guarded`, and the
//! observation (accept / reject, decoded fields, authenticated bytes, re-encoded bytes) is logged
//! next to what the harness built. Every comparison is left to TLC (spec/Trace_*Codec.tla).
//!
//! Determinism: everything is derived from (seed, case, variant number), so a case can be replayed
//! on its own.
/// `bytes!(rng, n)`: n random bytes (n is evaluated first, so it may draw from the same generator).
macro_rules! bytes {
    ($rng:expr, $n:expr) => {{
        let n: usize = $n;
        crate::codec::bytes_fn($rng, n)
    }};
}
pub mod packet;
pub mod rpc;

use discv5::enr::{CombinedKey, Enr};
use rand::{rngs::StdRng, Rng, SeedableRng};
use serde_json::Value;
use std::net::{Ipv4Addr, Ipv6Addr};

pub fn fnv64(data: &[u8]) -> u64 {
    let mut h: u64 = 0xcbf29ce484222325;
    for b in data {
        h ^= *b as u64;
        h = h.wrapping_mul(0x100000001b3);
    }
    h
}

/// A byte string as it appears in the trace: hex when short, `#<len>:<fnv64>` when long
/// (`VH_FULL=1` always writes hex). TLC only compares these strings for equality.
pub fn h(data: &[u8]) -> String {
    if data.len() <= 40 || std::env::var_os("VH_FULL").is_some() {
        hex::encode(data)
    } else {
        format!("#{}:{:016x}", data.len(), fnv64(data))
    }
}

/// The generator of variant `v` of `case` under `seed` (independent of the position in the run).
pub fn case_rng(seed: u64, case: &Value, v: u64) -> StdRng {
    let mut c = case.clone();
    if let Some(o) = c.as_object_mut() {
        o.remove("dev");
        o.remove("vd");
    }
    let s = serde_json::to_string(&c).unwrap(); // serde_json keeps object keys sorted
    let x = fnv64(s.as_bytes()) ^ seed.wrapping_mul(0x9e3779b97f4a7c15) ^ v.wrapping_mul(0xd1b54a32d192ed03);
    StdRng::seed_from_u64(x)
}

pub fn bytes_fn(rng: &mut StdRng, n: usize) -> Vec<u8> {
    let mut b = vec![0u8; n];
    rng.fill(&mut b[..]);
    b
}

/// Boundary values first (variant v takes the v-th), random ones afterwards.
pub fn pick<T: Copy>(v: u64, bounds: &[T], mut rest: impl FnMut() -> T) -> T {
    if (v as usize) < bounds.len() {
        bounds[v as usize]
    } else {
        rest()
    }
}

// ------------------------------------------------------------------------------- minimal RLP
/// Header of an item with `len` payload bytes.
pub fn rlp_header(list: bool, len: usize) -> Vec<u8> {
    let (short, long) = if list { (0xc0u8, 0xf7u8) } else { (0x80u8, 0xb7u8) };
    if len < 56 {
        vec![short + len as u8]
    } else {
        let be = (len as u64).to_be_bytes();
        let skip = be.iter().take_while(|b| **b == 0).count();
        let mut out = vec![long + (8 - skip) as u8];
        out.extend_from_slice(&be[skip..]);
        out
    }
}
/// A byte string: a single byte below 0x80 is its own encoding.
pub fn rlp_str(b: &[u8]) -> Vec<u8> {
    if b.len() == 1 && b[0] < 0x80 {
        return vec![b[0]];
    }
    let mut out = rlp_header(false, b.len());
    out.extend_from_slice(b);
    out
}
/// An unsigned integer: big-endian without leading zeros, as a byte string (0 = empty string).
pub fn rlp_uint(v: u64) -> Vec<u8> {
    let be = v.to_be_bytes();
    let skip = be.iter().take_while(|b| **b == 0).count();
    rlp_str(&be[skip..])
}
pub fn rlp_list(payload: &[u8]) -> Vec<u8> {
    let mut out = rlp_header(true, payload.len());
    out.extend_from_slice(payload);
    out
}

// ------------------------------------------------------------------------------- records
pub type E = Enr<CombinedKey>;

/// A valid signed record with varied content, and its RLP bytes (the record codec is the `enr`
/// crate's; to the packet / message codecs a record is an opaque item).
pub fn make_enr(rng: &mut StdRng) -> (E, Vec<u8>) {
    loop {
        let mut kb = [0u8; 32];
        rng.fill(&mut kb[..]);
        let key = if rng.gen_range(0..5) == 0 {
            CombinedKey::ed25519_from_bytes(&mut kb).ok()
        } else {
            CombinedKey::secp256k1_from_bytes(&mut kb).ok()
        };
        let Some(key) = key else { continue };
        let mut b = E::builder();
        b.seq(match rng.gen_range(0..4) {
            0 => 1,
            1 => rng.gen_range(1..200),
            2 => u64::MAX,
            _ => rng.gen(),
        });
        if rng.gen_bool(0.7) {
            b.ip4(Ipv4Addr::from(rng.gen::<[u8; 4]>()));
            b.udp4(rng.gen_range(1..=u16::MAX));
        }
        if rng.gen_bool(0.3) {
            b.ip6(Ipv6Addr::from(rng.gen::<[u8; 16]>()));
            b.udp6(rng.gen_range(1..=u16::MAX));
        }
        if rng.gen_bool(0.3) {
            b.tcp4(rng.gen_range(1..=u16::MAX));
        }
        if rng.gen_bool(0.2) {
            let n = rng.gen_range(0..40);
            b.add_value("zz", &bytes!(rng, n).as_slice());
        }
        if let Ok(e) = b.build(&key) {
            let raw = alloy_rlp::encode(&e);
            return (e, raw);
        }
    }
}

/// A record that is not a valid signed record, derived from a valid one.
/// quality: "badsig" (a bit of the signature or of the signed content flipped), "trunc" (the last
/// bytes missing; the record's own list header adjusted or not), "str" (a byte string).
pub fn bad_record(rng: &mut StdRng, raw: &[u8], quality: &str, v: u64) -> Vec<u8> {
    // position of the first content byte after the list header
    let hl = if raw[0] >= 0xf8 { 1 + (raw[0] - 0xf7) as usize } else { 1 };
    match quality {
        "badsig" => {
            let mut r = raw.to_vec();
            // the signature item follows the header: b8 40 <64 bytes> (secp256k1 and ed25519 alike)
            let pos = match v % 3 {
                0 => hl + 2 + rng.gen_range(0..64),          // inside the signature
                1 => hl + 2 + 64 + rng.gen_range(0..(raw.len() - hl - 66).max(1)), // inside the signed content
                _ => rng.gen_range(hl + 2..raw.len()),
            }
            .min(raw.len() - 1);
            r[pos] ^= 1 << rng.gen_range(0..8);
            r
        }
        "trunc" => {
            let cut = pick(v, &[1usize, 2], || rng.gen_range(1..raw.len() - hl));
            let body = &raw[hl..raw.len() - cut];
            if v % 2 == 0 {
                rlp_list(body) // a well-delimited list that ends inside the content
            } else {
                raw[..raw.len() - cut].to_vec() // the header still announces the full length
            }
        }
        _ => match v % 3 {
            0 => vec![rng.gen_range(0..0x80)],
            1 => rlp_str(&bytes!(rng, 3)),
            _ => rlp_str(raw), // the record wrapped in a string
        },
    }
}
