//! `Packet::decode` / `Packet::encode` (src/packet/mod.rs) through the byte-level facade
//! `discv5::verif::{packet_decode, PacketView}` — binding for spec/PacketCodec.tla (C05).
//!
//! The reference side is `Fields` + `layout()`: the discv5.1 datagram
//!     iv(16) || mask( "discv5" || version(2) || flag(1) || nonce(12) || authdata-size(2) || authdata ) || body
//! with mask = AES-128-CTR, key = dest-id[..16], iv = the datagram's iv. Nothing of it comes from
//! the crate.
use super::{case_rng, h, make_enr, pick};
use crate::util::{self, Out};
use aes::cipher::{generic_array::GenericArray, KeyIvInit, StreamCipher};
use discv5::enr::NodeId;
use discv5::packet::PacketKind;
use discv5::verif::{packet_decode, PacketView};
use rand::{rngs::StdRng, Rng, SeedableRng};
use serde_json::{json, Value};

type Aes128Ctr64BE = ctr::Ctr64BE<aes::Aes128>;

fn mask(id: &[u8; 32], iv: &[u8], data: &mut [u8]) {
    let key = GenericArray::clone_from_slice(&id[..16]);
    let nonce = GenericArray::clone_from_slice(iv);
    let mut c = Aes128Ctr64BE::new(&key, &nonce);
    c.apply_keystream(data);
}

/// A masking iv; every fourth one has a counter (low 64 bits, big endian) whose low 32 bits overflow while the header is masked -
/// the carry must propagate (AES-CTR with a 64-bit big-endian counter); the top byte of the counter is kept off 0xff so that a
/// 64-bit and a 128-bit counter agree.
fn fresh_iv(rng: &mut StdRng) -> Vec<u8> {
    let mut iv: Vec<u8> = bytes!(rng, 16);
    if rng.gen_range(0..4) == 0 {
        iv[8] &= 0x7f;
        iv[12] = 0xff;
        iv[13] = 0xff;
        iv[14] = 0xff;
        iv[15] = 0xf8 | (iv[15] & 7);
    }
    iv
}

/// The logical content of a packet (what the property calls "the packet").
#[derive(Clone, Debug, Default)]
struct Fields {
    kind: &'static str, // msg | way | hs
    iv: Vec<u8>,
    nonce: Vec<u8>,
    src: Vec<u8>,
    idn: Vec<u8>,
    seq: u64,
    sig: Vec<u8>,
    key: Vec<u8>,
    rec: Option<Vec<u8>>, // RLP of the record
    body: Vec<u8>,
}

impl Fields {
    fn json(&self) -> Value {
        json!({
            "kind": self.kind, "iv": hex::encode(&self.iv), "nonce": hex::encode(&self.nonce),
            "src": hex::encode(&self.src), "idn": hex::encode(&self.idn),
            "seq": if self.kind == "way" { self.seq.to_string() } else { String::new() },
            "sig": h(&self.sig), "key": h(&self.key),
            "rec": match &self.rec { Some(r) => h(r), None => "none".to_string() },
            "body": h(&self.body),
        })
    }
    fn flag(&self) -> u8 {
        match self.kind {
            "msg" => 0,
            "way" => 1,
            _ => 2,
        }
    }
    /// auth-data of the kind (discv5.1 wire specification)
    fn authdata(&self) -> Vec<u8> {
        match self.kind {
            "msg" => self.src.clone(),
            "way" => {
                let mut a = self.idn.clone();
                a.extend_from_slice(&self.seq.to_be_bytes());
                a
            }
            _ => {
                let mut a = self.src.clone();
                a.push(self.sig.len() as u8);
                a.push(self.key.len() as u8);
                a.extend_from_slice(&self.sig);
                a.extend_from_slice(&self.key);
                if let Some(r) = &self.rec {
                    a.extend_from_slice(r);
                }
                a
            }
        }
    }
    /// (datagram for `dst`, authenticated bytes = iv || unmasked header || auth-data)
    fn layout(&self, dst: &[u8; 32]) -> (Vec<u8>, Vec<u8>) {
        let auth = self.authdata();
        let r = Raw {
            iv: self.iv.clone(),
            proto: b"discv5".to_vec(),
            ver: [0, 1],
            flag: self.flag(),
            nonce: self.nonce.clone(),
            asz: auth.len() as u16,
            rest: [auth, self.body.clone()].concat(),
        };
        r.datagram(dst)
    }
    fn of_view(p: &PacketView) -> Fields {
        let mut f = Fields { iv: p.iv.to_be_bytes().to_vec(), nonce: p.nonce.to_vec(), body: p.message.clone(), ..Default::default() };
        match &p.kind {
            PacketKind::Message { src_id } => {
                f.kind = "msg";
                f.src = src_id.raw().to_vec();
            }
            PacketKind::WhoAreYou { id_nonce, enr_seq } => {
                f.kind = "way";
                f.idn = id_nonce.to_vec();
                f.seq = *enr_seq;
            }
            PacketKind::Handshake { src_id, id_nonce_sig, ephem_pubkey, enr_record } => {
                f.kind = "hs";
                f.src = src_id.raw().to_vec();
                f.sig = id_nonce_sig.clone();
                f.key = ephem_pubkey.clone();
                f.rec = enr_record.as_ref().map(alloy_rlp::encode);
            }
        }
        f
    }
}

/// A datagram before masking, field by field (possibly ill-formed).
#[derive(Clone, Debug)]
struct Raw {
    iv: Vec<u8>,
    proto: Vec<u8>,
    ver: [u8; 2],
    flag: u8,
    nonce: Vec<u8>,
    asz: u16,
    rest: Vec<u8>, // everything after the static header: auth-data and body
}

impl Raw {
    /// masks static header + the declared auth-data (as far as it exists) for `dst`
    fn datagram(&self, dst: &[u8; 32]) -> (Vec<u8>, Vec<u8>) {
        let mut hdr = self.proto.clone();
        hdr.extend_from_slice(&self.ver);
        hdr.push(self.flag);
        hdr.extend_from_slice(&self.nonce);
        hdr.extend_from_slice(&self.asz.to_be_bytes());
        let a = (self.asz as usize).min(self.rest.len());
        hdr.extend_from_slice(&self.rest[..a]);
        let aad = [self.iv.clone(), hdr.clone()].concat();
        mask(dst, &self.iv, &mut hdr);
        let mut d = self.iv.clone();
        d.extend_from_slice(&hdr);
        d.extend_from_slice(&self.rest[a..]);
        (d, aad)
    }
}

fn id32(rng: &mut StdRng) -> [u8; 32] {
    rng.gen()
}

struct Built {
    local: [u8; 32],
    x: Vec<u8>,
    exp: Fields,
    eaad: Vec<u8>,
}

/// variant `v` of the abstract datagram `c`
fn concretise(c: &Value, v: u64, rng: &mut StdRng) -> Built {
    let shape = util::s(c, "shape");
    let local = id32(rng);
    let mut f = Fields { iv: fresh_iv(rng), nonce: bytes!(rng, 12), ..Default::default() };
    let mut extra_auth: Vec<u8> = vec![]; // bytes of the auth-data that belong to no field of a well-formed packet
    let mut rec_cut = 0usize;
    match shape {
        "msg" => {
            f.kind = "msg";
            f.src = id32(rng).to_vec();
        }
        "way" => {
            f.kind = "way";
            f.idn = bytes!(rng, 16);
            f.seq = pick(v, &[0, 1, u64::MAX, 255, 256], || rng.gen());
        }
        _ => {
            f.kind = "hs";
            f.src = id32(rng).to_vec();
            // 999 = any size 1..254
            f.sig = bytes!(rng, match util::i(c, "sig") {
                999 => pick(v, &[1usize, 254, 65, 63], || rng.gen_range(1..=254)),
                n => n as usize,
            });
            f.key = bytes!(rng, match util::i(c, "key") {
                999 => pick(v, &[254usize, 1, 32, 34], || rng.gen_range(1..=254)),
                n => n as usize,
            });
            let rec = util::s(c, "rec");
            if rec != "none" && rec != "garbage" {
                // "big" needs the rest of the auth-data to exceed 300 bytes, "trail" to stay within
                let (_, raw) = loop {
                    let r = make_enr(rng);
                    if rec != "trail" || r.1.len() < 300 {
                        break r;
                    }
                };
                let n = raw.len();
                f.rec = Some(raw);
                match rec {
                    "trail" => extra_auth = bytes!(rng, pick(v, &[1, 300 - n], || rng.gen_range(1..=300 - n))),
                    "big" => extra_auth = bytes!(rng, pick(v, &[301 - n, 400 - n], || rng.gen_range(301 - n..=400 - n))),
                    "trunc" => rec_cut = pick(v, &[1, n - 1, 2], || rng.gen_range(1..n)),
                    _ => {}
                }
            } else if rec == "garbage" {
                extra_auth = match v % 4 {
                    0 => vec![rng.gen()],
                    1 => vec![0xc0],                                   // an empty list
                    2 => super::rlp_list(&bytes!(rng, 20)),             // a list that is no record
                    _ => bytes!(rng, rng.gen_range(1..=60)),
                };
            }
        }
    }
    let mut auth = f.authdata();
    auth.truncate(auth.len() - rec_cut);
    auth.extend_from_slice(&extra_auth);
    let hdr_len = 39 + auth.len();

    // declared auth-data size
    let asz = util::s(c, "asz");
    let mut declared = auth.len();
    match asz {
        "plus" => {
            let n = pick(v, &[1usize, 2, 8], || rng.gen_range(1..=64));
            auth.extend_from_slice(&bytes!(rng, n));
            declared = auth.len();
        }
        "minus" => {
            let n = pick(v, &[1usize, auth.len(), 2], || rng.gen_range(1..=auth.len()));
            declared = auth.len() - n;
        }
        _ => {}
    }
    let hdr_len = if asz == "plus" { 39 + auth.len() } else { hdr_len };

    // body
    f.body = match util::s(c, "body") {
        "empty" => vec![],
        "one" => bytes!(rng, 1),
        "mid" => bytes!(rng, pick(v, &[2usize, 16, 44], || rng.gen_range(2..=(1279 - hdr_len).min(700)))),
        "max" => bytes!(rng, 1280 - hdr_len),
        _ => bytes!(rng, pick(v, &[1281usize, 1400, 1282], || rng.gen_range(1281..=1400)) - hdr_len),
    };
    let rest = [auth.clone(), f.body.clone()].concat();
    if asz == "beyond" {
        let r = rest.len();
        declared = pick(v, &[r + 1, 0xffff, r + 2], || rng.gen_range(r + 1..=0xffff));
    }

    let proto = match util::s(c, "proto") {
        "ok" => b"discv5".to_vec(),
        _ => match v % 5 {
            0 => b"discv4".to_vec(),
            1 => b"Discv5".to_vec(),
            2 => vec![0; 6],
            3 => {
                let mut p = b"discv5".to_vec();
                p[rng.gen_range(0..6)] ^= 1 << rng.gen_range(0..8);
                p
            }
            _ => loop {
                let p = bytes!(rng, 6);
                if p != b"discv5" {
                    break p;
                }
            },
        },
    };
    let ver: [u8; 2] = match util::s(c, "ver") {
        "ok" => [0, 1],
        _ => pick(v, &[[0, 0], [0, 2], [1, 1], [1, 0], [0xff, 0xff]], || loop {
            let x: [u8; 2] = rng.gen();
            if x != [0, 1] {
                break x;
            }
        }),
    };
    let flag = match util::i(c, "flag") {
        3 => pick(v, &[3u8, 255, 4, 0x80], || rng.gen_range(3..=255)),
        n => n as u8,
    };
    let dst = match util::s(c, "mask") {
        "us" => local,
        _ => {
            // another node id; the masking key is its first 16 bytes, so it differs there
            let mut o = local;
            match v % 3 {
                0 => o[0] ^= 0x80,
                1 => o[15] ^= 0x01,
                _ => {
                    o = id32(rng);
                    if o[..16] == local[..16] {
                        o[3] ^= 4;
                    }
                }
            }
            o
        }
    };
    let raw = Raw { iv: f.iv.clone(), proto, ver, flag, nonce: f.nonce.clone(), asz: declared as u16, rest };
    let (mut x, eaad) = raw.datagram(&dst);
    match util::s(c, "cut") {
        "lt63" => x.truncate(pick(v, &[62usize, 0, 1, 16, 38, 39, 40], || rng.gen_range(0..63))),
        "inauth" => x.truncate(pick(v, &[63usize, hdr_len - 1, 64], || rng.gen_range(63..hdr_len))),
        _ => {}
    }
    Built { local, x, exp: f, eaad }
}

/// Runs the real decoder on `x` (and, when it accepts, the real encoder and the decoder again).
fn observe(local: &[u8; 32], x: &[u8]) -> Value {
    let id = NodeId::new(local);
    let r = util::guarded(|| packet_decode(&id, x));
    let mut o = json!({"n": x.len(), "x": h(x), "acc": false, "err": "", "panic": "", "got": []});
    match r {
        Err(p) => {
            o["panic"] = json!(format!("decode: {p}"));
        }
        Ok(Err(e)) => {
            // the variant name of PacketError
            let name: String = e.chars().take_while(|ch| ch.is_alphanumeric()).collect();
            o["err"] = json!(name);
        }
        Ok(Ok((view, aad))) => {
            o["acc"] = json!(true);
            let f = Fields::of_view(&view);
            let (ind, aadi) = f.layout(local);
            let second = util::guarded(|| {
                let enc = view.encode(&id);
                let aadv = view.authenticated_data();
                let re = packet_decode(&id, &enc);
                (enc, aadv, re)
            });
            match second {
                Err(p) => o["panic"] = json!(format!("encode/decode of the decoded packet: {p}")),
                Ok((enc, aadv, re)) => {
                    let re = match re {
                        Ok((v2, aad2)) => json!({"acc": true, "pkt": Fields::of_view(&v2).json(), "aad": h(&aad2)}),
                        Err(e) => json!({"acc": false, "pkt": [], "aad": e}),
                    };
                    // bytes of the authenticated data returned by the decoder that belong to no field of the returned packet,
                    // although the packet has no record that could account for them
                    let dropped = f.rec.is_none() && aad.len() > aadv.len();
                    o["got"] = json!({"pkt": f.json(), "aad": h(&aad), "enc": h(&enc), "ind": h(&ind),
                                       "aadv": h(&aadv), "aadi": h(&aadi), "re": re, "dropped": dropped});
                }
            }
        }
    }
    o
}

// ------------------------------------------------------------------------------- unconstrained
/// A random well-formed packet (all three kinds, signature / key sizes 0..255, with / without record).
fn random_fields(rng: &mut StdRng) -> Fields {
    let mut f = Fields { iv: fresh_iv(rng), nonce: bytes!(rng, 12), ..Default::default() };
    match rng.gen_range(0..3) {
        0 => {
            f.kind = "msg";
            f.src = id32(rng).to_vec();
        }
        1 => {
            f.kind = "way";
            f.idn = bytes!(rng, 16);
            f.seq = rng.gen();
        }
        _ => {
            f.kind = "hs";
            f.src = id32(rng).to_vec();
            let sizes = [0usize, 1, 64, 33, 255];
            f.sig = bytes!(rng, if rng.gen_bool(0.5) { sizes[rng.gen_range(0..5)] } else { rng.gen_range(0..=255) });
            f.key = bytes!(rng, if rng.gen_bool(0.5) { sizes[rng.gen_range(0..5)] } else { rng.gen_range(0..=255) });
            if rng.gen_bool(0.5) {
                f.rec = Some(make_enr(rng).1);
            }
        }
    }
    if f.kind != "way" {
        let hdr = 39 + f.authdata().len();
        f.body = bytes!(rng, match rng.gen_range(0..4) {
            0 => 0,
            1 => rng.gen_range(0..64),
            2 => 1280 - hdr,
            _ => rng.gen_range(0..=1280 - hdr),
        });
    }
    f
}

const LENS: [usize; 14] = [0, 1, 15, 16, 38, 39, 62, 63, 64, 71, 1279, 1280, 1281, 1400];

/// An unconstrained byte string: (generator label, decoding id, bytes), a function of (s, i) only.
fn raw_case(op: &Value) -> (&'static str, [u8; 32], Vec<u8>) {
    let (s, i) = (util::i(op, "s") as u64, util::i(op, "i") as u64);
    let mut rng = StdRng::seed_from_u64(s.wrapping_mul(0x9e3779b97f4a7c15) ^ i.wrapping_mul(0xd1b54a32d192ed03) ^ 0x5eed);
    let rng = &mut rng;
    let local = id32(rng);
    // an explicit length: random bytes, or random bytes behind a valid static header
    if let Some(len) = op.get("len").and_then(|x| x.as_u64()) {
        let len = len as usize;
        if op.get("hdr").and_then(|x| x.as_bool()).unwrap_or(false) && len >= 39 {
            return ("len+hdr", local, header_then_noise(rng, &local, len));
        }
        return ("len", local, bytes!(rng, len));
    }
    match rng.gen_range(0..10) {
        0 => {
            let n = if rng.gen_bool(0.5) { LENS[rng.gen_range(0..LENS.len())] } else { rng.gen_range(0..=1400) };
            ("rand", local, bytes!(rng, n))
        }
        1 | 2 => {
            let n = if rng.gen_bool(0.3) { LENS[rng.gen_range(4..LENS.len())].max(39) } else { rng.gen_range(39..=1400) };
            ("hdr", local, header_then_noise(rng, &local, n))
        }
        3 => ("valid", local, random_fields(rng).layout(&local).0),
        _ => {
            // a valid datagram mutated in the unmasked domain
            let f = random_fields(rng);
            let auth = f.authdata();
            let mut r = Raw { iv: f.iv.clone(), proto: b"discv5".to_vec(), ver: [0, 1], flag: f.flag(), nonce: f.nonce.clone(),
                              asz: auth.len() as u16, rest: [auth, f.body.clone()].concat() };
            let mut trunc: Option<usize> = None;
            for _ in 0..rng.gen_range(1..=3) {
                match rng.gen_range(0..12) {
                    0 => r.iv[rng.gen_range(0..16)] ^= 1 << rng.gen_range(0..8),
                    1 => r.nonce[rng.gen_range(0..12)] ^= 1 << rng.gen_range(0..8),
                    2 => r.flag = rng.gen_range(0..=3),
                    3 => r.asz = (r.asz as i32 + [-2, -1, 1, 2, 24, 32][rng.gen_range(0..6)]).clamp(0, 0xffff) as u16,
                    4 => r.asz = [0u16, 24, 32, 34, r.rest.len() as u16, r.rest.len() as u16 + 1, 0xffff][rng.gen_range(0..7)],
                    5 | 6 if !r.rest.is_empty() => {
                        let p = rng.gen_range(0..r.rest.len());
                        r.rest[p] ^= 1 << rng.gen_range(0..8);
                    }
                    7 if !r.rest.is_empty() => {
                        // a byte of the handshake's size fields / of the first bytes after the source id
                        let p = rng.gen_range(0..r.rest.len().min(40));
                        r.rest[p] = [0u8, 1, 0x7f, 0x80, 0xc0, 0xf8, 0xff][rng.gen_range(0..7)];
                    }
                    8 => {
                        let p = rng.gen_range(0..=r.rest.len());
                        let ins = bytes!(rng, rng.gen_range(1..=8));
                        r.rest.splice(p..p, ins);
                    }
                    9 if !r.rest.is_empty() => {
                        let p = rng.gen_range(0..r.rest.len());
                        let n = rng.gen_range(1..=8).min(r.rest.len() - p);
                        r.rest.drain(p..p + n);
                    }
                    10 => trunc = Some(rng.gen_range(0..=39 + r.rest.len())),
                    11 => r.rest.extend(bytes!(rng, rng.gen_range(1..=200))),
                    _ => {}
                }
            }
            let mut d = r.datagram(&local).0;
            if let Some(t) = trunc {
                d.truncate(t);
            }
            ("mut", local, d)
        }
    }
}

/// `len` bytes whose static header unmasks to a valid protocol id / version with plausible kind and size fields
fn header_then_noise(rng: &mut StdRng, local: &[u8; 32], len: usize) -> Vec<u8> {
    let rest = bytes!(rng, len - 39);
    let sizes = [0usize, 23, 24, 25, 31, 32, 33, 34, 35, 99, 290, rest.len().saturating_sub(1), rest.len(), rest.len() + 1, 0xffff];
    let asz = if rng.gen_bool(0.8) { sizes[rng.gen_range(0..sizes.len())] } else { rng.gen_range(0..=0xffff) }.min(0xffff);
    let mut r = Raw { iv: bytes!(rng, 16), proto: b"discv5".to_vec(), ver: [0, 1], flag: rng.gen_range(0..=3), nonce: bytes!(rng, 12), asz: asz as u16, rest };
    if r.flag == 2 && r.rest.len() >= 34 && rng.gen_bool(0.7) {
        // plausible signature / key sizes
        r.rest[32] = [0u8, 1, 64, 255][rng.gen_range(0..4)];
        r.rest[33] = [0u8, 33, 255][rng.gen_range(0..3)];
    }
    r.datagram(local).0
}

// ------------------------------------------------------------------------------- driver
fn run(ops: &[Value], out: &mut Out) {
    let (mut seed, mut k) = (0u64, 1u64);
    for op in ops {
        match util::s(op, "o") {
            "reset" => {
                seed = util::i(op, "seed") as u64;
                k = util::i(op, "k") as u64;
                out.emit(&json!({"op": op, "vs": []}));
            }
            "raw" => {
                let (g, local, x) = raw_case(op);
                let mut o = observe(&local, &x);
                o["g"] = json!(g);
                out.emit(&json!({"op": op, "vs": [o]}));
            }
            _ => {
                let mut vs = vec![];
                for v in 0..k {
                    let mut rng = case_rng(seed, op, v);
                    let b = concretise(op, v, &mut rng);
                    let mut o = observe(&b.local, &b.x);
                    if o["acc"] == json!(true) || std::env::var_os("VH_FULL").is_some() {
                        o["exp"] = b.exp.json();
                        o["eaad"] = json!(h(&b.eaad));
                    }
                    vs.push(o);
                }
                out.emit(&json!({"op": op, "vs": vs}));
            }
        }
    }
}

pub fn replay(behaviours: &[Vec<Value>], out: &mut Out) -> Result<(), String> {
    for b in behaviours {
        run(b, out);
    }
    Ok(())
}

/// Unconstrained byte strings: a sweep over the lengths 0..1400 (random bytes, and random bytes behind a
/// valid static header) and `n` seeded random / mutated strings.
pub fn drive(seed: u64, n: usize, out: &mut Out) -> Result<(), String> {
    let mut ops: Vec<Value> = vec![];
    let step = if n >= 20000 { 1 } else { 9 };
    for len in (0..=1400usize).filter(|l| l % step == 0 || *l <= 80 || (1270..=1290).contains(l)) {
        ops.push(json!({"o": "raw", "s": seed, "i": ops.len(), "len": len, "hdr": false}));
        if len >= 39 {
            ops.push(json!({"o": "raw", "s": seed, "i": ops.len(), "len": len, "hdr": true}));
        }
    }
    for _ in 0..n {
        ops.push(json!({"o": "raw", "s": seed, "i": ops.len()}));
    }
    for chunk in ops.chunks(200) {
        let mut b = vec![json!({"o": "reset", "seed": seed, "k": 1})];
        b.extend_from_slice(chunk);
        run(&b, out);
    }
    Ok(())
}
