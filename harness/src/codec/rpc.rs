//! `Message::decode` / `Message::encode` (src/rpc.rs) through the facade re-export
//! `discv5::verif::Message` — binding for spec/RpcCodec.tla (C06).
//!
//! The reference side is `Msg` + `layout()`: the discv5.1 message encoding
//!     message-type(1) || rlp-list[ request-id, fields... ]
//! PING [id, enr-seq]  PONG [id, enr-seq, ip, port]  FINDNODE [id, [distances...]]
//! NODES [id, total, [records...]]  TALKREQ [id, protocol, request]  TALKRESP [id, response]
//! written with the harness's own RLP encoder (codec/mod.rs). Records are opaque RLP items made by
//! the `enr` crate.
use super::{bad_record, case_rng, h, make_enr, pick, rlp_header, rlp_list, rlp_str, rlp_uint};
use crate::util::{self, Out};
use discv5::verif::{Message, Request, RequestBody, Response, ResponseBody};
use rand::{rngs::StdRng, Rng, SeedableRng};
use serde_json::{json, Value};
use std::net::{IpAddr, Ipv4Addr, Ipv6Addr};

/// The logical content of a message.
#[derive(Clone, Debug, Default)]
struct Msg {
    t: u8,
    id: Vec<u8>,
    seq: u64,          // PING / PONG enr-seq, NODES total
    ip: Vec<u8>,       // PONG: 4 or 16 bytes
    port: u16,         // PONG
    dist: Vec<u64>,    // FINDNODE
    recs: Vec<Vec<u8>>, // NODES: RLP of each record
    p1: Vec<u8>,       // TALKREQ protocol, TALKRESP response
    p2: Vec<u8>,       // TALKREQ request
}

fn type_name(t: u8) -> &'static str {
    match t {
        1 => "ping",
        2 => "pong",
        3 => "findnode",
        4 => "nodes",
        5 => "talkreq",
        6 => "talkresp",
        _ => "unknown",
    }
}

fn ip_text(b: &[u8]) -> String {
    match b.len() {
        4 => Ipv4Addr::new(b[0], b[1], b[2], b[3]).to_string(),
        16 => {
            let mut a = [0u8; 16];
            a.copy_from_slice(b);
            Ipv6Addr::from(a).to_string()
        }
        _ => format!("?{}", hex::encode(b)),
    }
}

impl Msg {
    fn json(&self) -> Value {
        json!({
            "t": type_name(self.t), "id": hex::encode(&self.id),
            "seq": if matches!(self.t, 1 | 2 | 4) { self.seq.to_string() } else { String::new() },
            "ip": if self.t == 2 { ip_text(&self.ip) } else { String::new() },
            "port": if self.t == 2 { self.port.to_string() } else { String::new() },
            "dist": if self.t == 3 { format!("[{}]", self.dist.iter().map(|d| d.to_string()).collect::<Vec<_>>().join(",")) } else { String::new() },
            "recs": if self.t == 4 { format!("[{}]", self.recs.iter().map(|r| h(r)).collect::<Vec<_>>().join(",")) } else { String::new() },
            "p1": if matches!(self.t, 5 | 6) { h(&self.p1) } else { String::new() },
            "p2": if self.t == 5 { h(&self.p2) } else { String::new() },
        })
    }
    /// the encoded items of the outer list
    fn items(&self) -> Vec<Vec<u8>> {
        let mut it = vec![rlp_str(&self.id)];
        match self.t {
            2 => {
                it.push(rlp_uint(self.seq));
                it.push(rlp_str(&self.ip));
                it.push(rlp_uint(self.port as u64));
            }
            3 => it.push(rlp_list(&self.dist.iter().flat_map(|d| rlp_uint(*d)).collect::<Vec<u8>>())),
            4 => {
                it.push(rlp_uint(self.seq));
                it.push(rlp_list(&self.recs.concat()));
            }
            5 => {
                it.push(rlp_str(&self.p1));
                it.push(rlp_str(&self.p2));
            }
            6 => it.push(rlp_str(&self.p1)),
            _ => it.push(rlp_uint(self.seq)),
        }
        it
    }
    fn layout(&self) -> Vec<u8> {
        let mut out = vec![self.t];
        out.extend_from_slice(&rlp_list(&self.items().concat()));
        out
    }
    fn of_message(m: &Message) -> Msg {
        let mut f = Msg::default();
        match m {
            Message::Request(Request { id, body }) => {
                f.id = id.0.clone();
                match body {
                    RequestBody::Ping { enr_seq } => {
                        f.t = 1;
                        f.seq = *enr_seq;
                    }
                    RequestBody::FindNode { distances } => {
                        f.t = 3;
                        f.dist = distances.clone();
                    }
                    RequestBody::Talk { protocol, request } => {
                        f.t = 5;
                        f.p1 = protocol.clone();
                        f.p2 = request.clone();
                    }
                }
            }
            Message::Response(Response { id, body }) => {
                f.id = id.0.clone();
                match body {
                    ResponseBody::Pong { enr_seq, ip, port } => {
                        f.t = 2;
                        f.seq = *enr_seq;
                        f.ip = match ip {
                            IpAddr::V4(a) => a.octets().to_vec(),
                            IpAddr::V6(a) => a.octets().to_vec(),
                        };
                        f.port = port.get();
                    }
                    ResponseBody::Nodes { total, nodes } => {
                        f.t = 4;
                        f.seq = *total;
                        f.recs = nodes.iter().map(alloy_rlp::encode).collect();
                    }
                    ResponseBody::Talk { response } => {
                        f.t = 6;
                        f.p1 = response.clone();
                    }
                }
            }
        }
        f
    }
}

/// An integer item of class `c`: returns (encoding, value if it is one a u64 can hold canonically).
fn int_item(c: &str, v: u64, rng: &mut StdRng) -> (Vec<u8>, u64) {
    match c {
        "zero" => (vec![0x80], 0),
        "small" => {
            let x = pick(v, &[1u64, 127, 128, 255, 256, 65536], || rng.gen_range(1..u64::MAX));
            (rlp_uint(x), x)
        }
        "max" => (rlp_uint(u64::MAX), u64::MAX),
        "over" => {
            let mut b = bytes!(rng, 9);
            b[0] |= 1;
            ([vec![0x89], b].concat(), 0)
        }
        _ => match v % 3 {
            0 => (vec![0x82, 0x00, rng.gen()], 0),           // leading zero byte
            1 => (vec![0x81, rng.gen_range(0..0x80)], 0),    // single byte below 0x80 with a length prefix
            _ => (vec![0x00], 0),                            // zero written as the byte 0x00
        },
    }
}

fn payload_item(c: &str, v: u64, rng: &mut StdRng) -> Vec<u8> {
    match c {
        "empty" => vec![],
        "byte" => vec![pick(v, &[0u8, 0x7f, 1], || rng.gen_range(0..0x80))],
        "small" => match v {
            0 => vec![0x80],
            1 => bytes!(rng, 55),
            2 => vec![0xff],
            _ => bytes!(rng, rng.gen_range(1..=55)),
        },
        _ => bytes!(rng, pick(v, &[56usize, 255, 256, 1100], || rng.gen_range(56..=1100))),
    }
}

struct Built {
    x: Vec<u8>,
    exp: Msg,
}

/// variant `v` of the abstract message `c`
fn concretise(c: &Value, v: u64, rng: &mut StdRng) -> Built {
    let t = util::i(c, "t") as u8;
    let mut m = Msg { t, ..Default::default() };
    let idlen = match util::i(c, "idlen") {
        9 => pick(v, &[9usize, 16, 10], || rng.gen_range(9..=16)),
        n => n as usize,
    };
    m.id = bytes!(rng, idlen);
    if idlen == 1 && v % 2 == 0 {
        m.id[0] &= 0x7f; // the single-byte form
    }
    let mut items: Vec<Vec<u8>> = vec![rlp_str(&m.id)];
    match t {
        1 => {
            let (e, x) = int_item(util::s(c, "seq"), v, rng);
            m.seq = x;
            items.push(e);
        }
        2 => {
            let (e, x) = int_item(util::s(c, "seq"), v, rng);
            m.seq = x;
            items.push(e);
            let ipb: Vec<u8> = match util::s(c, "ip") {
                "v4" => pick(v, &[[0u8, 0, 0, 0], [127, 0, 0, 1], [255, 255, 255, 255], [0, 0, 0, 1]], || rng.gen()).to_vec(),
                "v6" => {
                    let mut a: [u8; 16] = rng.gen();
                    match v % 4 {
                        0 => a[0] = 0x20,
                        // as close to the mapped / compatible forms as a plain address gets
                        1 => {
                            a[..10].fill(0);
                            a[10] = 0xff;
                            a[11] = 0xfe;
                        }
                        2 => {
                            a[..11].fill(0);
                            a[11] = 1;
                        }
                        _ => a[0] |= 1,
                    }
                    a.to_vec()
                }
                "mapped" => {
                    let mut a = [0u8; 16];
                    a[10] = 0xff;
                    a[11] = 0xff;
                    a[12..].copy_from_slice(&pick(v, &[[0u8, 0, 0, 0], [255, 255, 255, 255], [127, 0, 0, 1]], || rng.gen()));
                    a.to_vec()
                }
                "compat" => {
                    let mut a = [0u8; 16];
                    a[12..].copy_from_slice(&rng.gen::<[u8; 4]>());
                    a[12] |= 1; // not ::, not ::1
                    a.to_vec()
                }
                "loop" => {
                    let mut a = [0u8; 16];
                    a[15] = 1;
                    a.to_vec()
                }
                _ => bytes!(rng, pick(v, &[0usize, 5, 17, 3, 15, 32, 1], || loop {
                    let n = rng.gen_range(0..40);
                    if n != 4 && n != 16 {
                        break n;
                    }
                })),
            };
            items.push(rlp_str(&ipb));
            // what the decoder is meant to return: the mapped / compatible forms as their IPv4 value
            m.ip = match util::s(c, "ip") {
                "mapped" | "compat" => ipb[12..].to_vec(),
                _ => ipb,
            };
            let (pe, px): (Vec<u8>, u64) = match util::s(c, "port") {
                "zero" => (if v % 2 == 0 { vec![0x80] } else { vec![0x00] }, 0),
                "one" => {
                    let p = pick(v, &[1u64, 255, 256, 30303, 127, 128], || rng.gen_range(1..65535));
                    (rlp_uint(p), p)
                }
                "max" => (rlp_uint(65535), 65535),
                _ => (rlp_uint(pick(v, &[65536u64, u32::MAX as u64, u64::MAX], || rng.gen_range(65536..u64::MAX))), 0),
            };
            m.port = px as u16;
            items.push(pe);
        }
        3 => {
            let nd = util::i(c, "nd") as usize;
            let mut ds: Vec<Vec<u8>> = vec![];
            for j in 0..nd {
                let d = match (v as usize + j) % 4 {
                    0 => 256,
                    1 => 0,
                    2 => rng.gen_range(0..=256),
                    _ => 255,
                };
                m.dist.push(d);
                ds.push(rlp_uint(d));
            }
            let dist = util::s(c, "dist");
            if dist != "le256" {
                let pos = rng.gen_range(0..nd);
                ds[pos] = if dist == "gt256" {
                    rlp_uint(pick(v, &[257u64, u64::MAX, 65536, 512], || rng.gen_range(257..u64::MAX)))
                } else {
                    int_item("over", v, rng).0
                };
            }
            items.push(rlp_list(&ds.concat()));
        }
        4 => {
            let (e, x) = int_item(util::s(c, "seq"), v, rng);
            m.seq = x;
            items.push(e);
            let n = util::i(c, "nrec") as usize;
            let mut recs: Vec<Vec<u8>> = (0..n).map(|_| make_enr(rng).1).collect();
            m.recs = recs.clone();
            let q = util::s(c, "recq");
            if n > 0 && q != "valid" {
                let pos = (v as usize) % n;
                recs[pos] = bad_record(rng, &recs[pos].clone(), q, v);
            }
            let all = recs.concat();
            match util::s(c, "inner") {
                "exact" => items.push(rlp_list(&all)),
                "short" => {
                    // the inner list holds the first j records, the others follow it in the outer list
                    let j = pick(v, &[n - 1, 0], || rng.gen_range(0..n));
                    items.push([rlp_list(&recs[..j].concat()), recs[j..].concat()].concat());
                }
                "long" => {
                    let extra = pick(v, &[1usize, 56, 300], || rng.gen_range(1..400));
                    items.push([rlp_header(true, all.len() + extra), all].concat());
                }
                _ => items.push([rlp_header(false, all.len()), all].concat()),
            }
        }
        5 => {
            m.p1 = payload_item(util::s(c, "p1"), v, rng);
            m.p2 = payload_item(util::s(c, "p2"), v, rng);
            items.push(rlp_str(&m.p1));
            items.push(rlp_str(&m.p2));
        }
        6 => {
            m.p1 = payload_item(util::s(c, "p1"), v, rng);
            items.push(rlp_str(&m.p1));
        }
        _ => {
            m.seq = rng.gen_range(1..1000);
            items.push(rlp_uint(m.seq));
        }
    }
    match util::s(c, "arity") {
        "missing" => {
            items.pop();
        }
        "extra" => items.push(match v % 3 {
            0 => vec![0x01],
            1 => vec![0x80],
            _ => rlp_str(&bytes!(rng, 3)),
        }),
        "empty" => items.clear(),
        _ => {}
    }
    let payload = items.concat();
    let tb = match t {
        7 => pick(v, &[7u8, 255, 8, 0x80], || rng.gen_range(7..=255)),
        n => n,
    };
    let exact = [vec![tb], rlp_list(&payload)].concat();
    let len = payload.len();
    let x = match util::s(c, "outer") {
        "exact" => exact,
        "short" => {
            let keep = pick(v, &[exact.len() - 1, 3, exact.len() / 2 + 1], || rng.gen_range(3..exact.len())).clamp(3, exact.len() - 1);
            exact[..keep].to_vec()
        }
        "tiny" => exact[..pick(v, &[2usize, 1, 0], || rng.gen_range(0..3))].to_vec(),
        "over" => [vec![tb], rlp_header(true, len + pick(v, &[1usize, 56, 1000], || rng.gen_range(1..2000))), payload].concat(),
        "trail" => [exact, bytes!(rng, pick(v, &[1usize, 2, 32], || rng.gen_range(1..100)))].concat(),
        "under" => [vec![tb], rlp_header(true, len - pick(v, &[1usize, len, 2.min(len)], || rng.gen_range(1..=len))), payload].concat(),
        _ => [vec![tb], rlp_header(false, len), payload].concat(),
    };
    Built { x, exp: m }
}

/// Runs the real decoder on `x` (and, when it accepts, the real encoder and the decoder again).
fn observe(x: &[u8]) -> Value {
    let mut o = json!({"n": x.len(), "x": h(x), "acc": false, "err": "", "panic": "", "got": []});
    match util::guarded(|| Message::decode(x)) {
        Err(p) => o["panic"] = json!(format!("decode: {p}")),
        Ok(Err(e)) => o["err"] = json!(format!("{e:?}")),
        Ok(Ok(m)) => {
            o["acc"] = json!(true);
            let f = Msg::of_message(&m);
            let ind = f.layout();
            let second = util::guarded(|| {
                let enc = m.clone().encode();
                let re = Message::decode(&enc);
                (enc, re)
            });
            match second {
                Err(p) => o["panic"] = json!(format!("encode/decode of the decoded message: {p}")),
                Ok((enc, re)) => {
                    let re = match re {
                        Ok(m2) => json!({"acc": true, "msg": Msg::of_message(&m2).json(), "same": m2 == m}),
                        Err(e) => json!({"acc": false, "msg": [], "same": false, "err": format!("{e:?}")}),
                    };
                    o["got"] = json!({"msg": f.json(), "enc": h(&enc), "ind": h(&ind), "re": re});
                }
            }
        }
    }
    o
}

// ------------------------------------------------------------------------------- unconstrained
fn random_msg(rng: &mut StdRng) -> Msg {
    let mut m = Msg { t: rng.gen_range(1..=6), ..Default::default() };
    let idlen = rng.gen_range(0..=8);
    m.id = bytes!(rng, idlen);
    let u = |rng: &mut StdRng| match rng.gen_range(0..4) {
        0 => 0,
        1 => rng.gen_range(0..300),
        2 => u64::MAX,
        _ => rng.gen(),
    };
    match m.t {
        1 => m.seq = u(rng),
        2 => {
            m.seq = u(rng);
            m.ip = if rng.gen_bool(0.5) { bytes!(rng, 4) } else { bytes!(rng, 16) };
            m.port = rng.gen_range(1..=65535);
        }
        3 => m.dist = (0..rng.gen_range(0..6)).map(|_| rng.gen_range(0..=256)).collect(),
        4 => {
            m.seq = u(rng);
            m.recs = (0..rng.gen_range(0..4)).map(|_| make_enr(rng).1).collect();
        }
        5 => {
            m.p1 = bytes!(rng, rng.gen_range(0..70));
            m.p2 = bytes!(rng, rng.gen_range(0..300));
        }
        _ => m.p1 = bytes!(rng, rng.gen_range(0..300)),
    }
    m
}

fn random_item(rng: &mut StdRng, depth: u32) -> Vec<u8> {
    match rng.gen_range(0..9) {
        0 => rlp_uint(rng.gen_range(0..300)),
        1 => rlp_uint(rng.gen()),
        2 => rlp_str(&bytes!(rng, rng.gen_range(0..70))),
        3 => rlp_str(&bytes!(rng, [4usize, 16, 8, 9][rng.gen_range(0..4)])),
        4 if depth < 3 => {
            let n = rng.gen_range(0..4);
            rlp_list(&(0..n).flat_map(|_| random_item(rng, depth + 1)).collect::<Vec<u8>>())
        }
        5 => make_enr(rng).1,
        6 if depth < 2 => rlp_list(&(0..rng.gen_range(1..3)).flat_map(|_| make_enr(rng).1).collect::<Vec<u8>>()),
        7 => vec![rng.gen()],
        _ => vec![0x80],
    }
}

/// An unconstrained byte string: (generator label, bytes), a function of (s, i) only.
fn raw_case(op: &Value) -> (&'static str, Vec<u8>) {
    let (s, i) = (util::i(op, "s") as u64, util::i(op, "i") as u64);
    let mut rng = StdRng::seed_from_u64(s.wrapping_mul(0x9e3779b97f4a7c15) ^ i.wrapping_mul(0xd1b54a32d192ed03) ^ 0xc06);
    let rng = &mut rng;
    if let Some(len) = op.get("len").and_then(|x| x.as_u64()) {
        let mut b = bytes!(rng, len as usize);
        if !b.is_empty() && op.get("hdr").and_then(|x| x.as_bool()).unwrap_or(false) {
            b[0] = rng.gen_range(1..=6);
            if b.len() > 1 {
                let l = b.len() - 2;
                let hd = rlp_header(true, l);
                if 1 + hd.len() <= b.len() {
                    b[1..1 + hd.len()].copy_from_slice(&hd);
                }
            }
        }
        return ("len", b);
    }
    match rng.gen_range(0..10) {
        0 => {
            let n = if rng.gen_bool(0.5) { rng.gen_range(0..8) } else { rng.gen_range(0..1300) };
            ("rand", bytes!(rng, n))
        }
        1 => {
            let n = rng.gen_range(0..6);
            let payload: Vec<u8> = (0..n).flat_map(|_| random_item(rng, 0)).collect();
            ("rlp", [vec![rng.gen_range(0..=7)], rlp_list(&payload)].concat())
        }
        2 | 3 => {
            // the items of a valid message, some replaced by arbitrary items, one dropped or added
            let m = random_msg(rng);
            let mut items = m.items();
            for it in items.iter_mut() {
                if rng.gen_bool(0.2) {
                    *it = random_item(rng, 0);
                }
            }
            match rng.gen_range(0..6) {
                0 => {
                    items.pop();
                }
                1 => items.push(random_item(rng, 0)),
                _ => {}
            }
            let t = if rng.gen_bool(0.8) { m.t } else { rng.gen_range(0..=7) };
            ("rlp", [vec![t], rlp_list(&items.concat())].concat())
        }
        4 => ("valid", random_msg(rng).layout()),
        _ => {
            let mut x = random_msg(rng).layout();
            for _ in 0..rng.gen_range(1..=3) {
                match rng.gen_range(0..8) {
                    0 | 1 if !x.is_empty() => {
                        let p = rng.gen_range(0..x.len());
                        x[p] ^= 1 << rng.gen_range(0..8);
                    }
                    2 if !x.is_empty() => {
                        let p = rng.gen_range(0..x.len().min(12));
                        x[p] = [0u8, 1, 0x7f, 0x80, 0x81, 0xb8, 0xc0, 0xc1, 0xf8, 0xf9, 0xff][rng.gen_range(0..11)];
                    }
                    3 => {
                        let p = rng.gen_range(0..=x.len());
                        let ins = bytes!(rng, rng.gen_range(1..=4));
                        x.splice(p..p, ins);
                    }
                    4 if !x.is_empty() => {
                        let p = rng.gen_range(0..x.len());
                        let n = rng.gen_range(1..=4).min(x.len() - p);
                        x.drain(p..p + n);
                    }
                    5 => x.truncate(rng.gen_range(0..=x.len())),
                    6 => x.extend(bytes!(rng, rng.gen_range(1..=40))),
                    _ if x.len() > 2 => {
                        // the outer list length, one off
                        let p = if x[1] >= 0xf8 { 1 + (x[1] - 0xf7) as usize } else { 1 };
                        if p < x.len() {
                            x[p] = if rng.gen_bool(0.5) { x[p].wrapping_add(1) } else { x[p].wrapping_sub(1) };
                        }
                    }
                    _ => {}
                }
            }
            ("mut", x)
        }
    }
}

// ------------------------------------------------------------------------------- driver
fn run(ops: &[Value], out: &mut Out) {
    let (mut seed, mut k) = (0u64, 1u64);
    for op in ops {
        match util::s(op, "o") {
            "reset" => {
                seed = util::i(op, "seed") as u64;
                k = util::i(op, "k") as u64;
                out.emit(&json!({"op": op, "vs": []}));
            }
            "raw" => {
                let (g, x) = raw_case(op);
                let mut o = observe(&x);
                o["g"] = json!(g);
                out.emit(&json!({"op": op, "vs": [o]}));
            }
            _ => {
                let mut vs = vec![];
                for v in 0..k {
                    let mut rng = case_rng(seed, op, v);
                    let b = concretise(op, v, &mut rng);
                    let mut o = observe(&b.x);
                    if o["acc"] == json!(true) || std::env::var_os("VH_FULL").is_some() {
                        o["exp"] = b.exp.json();
                    }
                    vs.push(o);
                }
                out.emit(&json!({"op": op, "vs": vs}));
            }
        }
    }
}

pub fn replay(behaviours: &[Vec<Value>], out: &mut Out) -> Result<(), String> {
    for b in behaviours {
        run(b, out);
    }
    Ok(())
}

/// Unconstrained byte strings: a sweep over short lengths and `n` seeded random / structured / mutated strings.
pub fn drive(seed: u64, n: usize, out: &mut Out) -> Result<(), String> {
    let mut ops: Vec<Value> = vec![];
    for len in 0..=(if n >= 20000 { 600usize } else { 80 }) {
        ops.push(json!({"o": "raw", "s": seed, "i": ops.len(), "len": len, "hdr": false}));
        ops.push(json!({"o": "raw", "s": seed, "i": ops.len(), "len": len, "hdr": true}));
    }
    for _ in 0..n {
        ops.push(json!({"o": "raw", "s": seed, "i": ops.len()}));
    }
    for chunk in ops.chunks(200) {
        let mut b = vec![json!({"o": "reset", "seed": seed, "k": 1})];
        b.extend_from_slice(chunk);
        run(&b, out);
    }
    Ok(())
}
