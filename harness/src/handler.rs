//! Lockstep driver for the real `Handler` main loop over a virtual socket (hooks H1–H3).
//!
//! The harness plays the application, every remote party (honest peers and the attacker, with
//! real keys) and the network. Each step injects one input, waits until the handler is idle
//! (`sleep(1 ms)` on tokio's paused clock returns only when every task is idle), and records what
//! the handler did: HandlerOut events, datagrams on the wire (decoded and attributed to the peer
//! session that decrypts them), the shared filter-exemption map and a bookkeeping snapshot.
//! All random identities are interned in order of first appearance (n* nonces of L, m* nonces of
//! peers, i* id-nonces of L, j* id-nonces of peers, k* session keys, b* byte strings).
use crate::util::{self, Out};
use discv5::enr::{CombinedKey, Enr as GEnr, NodeId};
use discv5::packet::PacketKind;
use discv5::verif::{
    self, HandlerIn, HandlerOut, Message, PeerSession, Request, RequestBody, Response,
    ResponseBody, VirtualHandler, WhoAreYouRef,
};
use discv5::{ConfigBuilder, ConnectionDirection, IpMode, ListenConfig, NodeAddress, NodeContact, RequestId};
use serde_json::{json, Map, Value};
use std::collections::HashMap;
use std::sync::Mutex;
use std::net::{Ipv4Addr, SocketAddr};

use std::time::Duration;

static ALL_IDN: Mutex<Option<HashMap<Vec<u8>, Vec<u8>>>> = Mutex::new(None);

type Enr = GEnr<CombinedKey>;
pub const TICK_MS: u64 = 1000; // one model tick of handler (tokio) time
pub const REQ_TIMEOUT_TICKS: u64 = 10;
pub const SESS_UNIT_MS: u64 = 700; // one unit of session age (std::time, aged by hook)

#[derive(Default)]
struct Interner {
    maps: HashMap<char, HashMap<Vec<u8>, String>>,
    rev: HashMap<String, Vec<u8>>,
}
impl Interner {
    fn name(&mut self, class: char, bytes: &[u8]) -> String {
        let m = self.maps.entry(class).or_default();
        if let Some(n) = m.get(bytes) {
            return n.clone();
        }
        let n = format!("{}{}", class, m.len() + 1);
        m.insert(bytes.to_vec(), n.clone());
        self.rev.insert(n.clone(), bytes.to_vec());
        n
    }
    fn known(&self, class: char, bytes: &[u8]) -> Option<String> {
        self.maps.get(&class).and_then(|m| m.get(bytes)).cloned()
    }
    fn bytes(&self, name: &str) -> Option<Vec<u8>> {
        self.rev.get(name).cloned()
    }
}

struct PeerSess {
    kid: String,
    sess: PeerSession,
    claimed: NodeId, // the id this session speaks as
}

struct ChallengeFromL {
    idn: String,
    dst_id: NodeId,
    addr: SocketAddr,
    aad: Vec<u8>,
}
struct MyChallenge {
    aad: Vec<u8>,
    claimed: NodeId,
}

struct Party {
    name: String,
    key: CombinedKey,
    id: NodeId,
    enrs: HashMap<u64, Enr>,
    addrs: Vec<SocketAddr>,
    sessions: Vec<PeerSess>,
    from_l: Vec<ChallengeFromL>,
    mine: Vec<MyChallenge>,
}

struct Injected {
    bytes: Vec<u8>,
}
struct Captured {
    bytes: Vec<u8>,
}

pub struct World {
    h: VirtualHandler,
    local_key: CombinedKey,
    local_enr: Enr,
    local_id: NodeId,
    parties: Vec<Party>,
    intern: Interner,
    addrs: Vec<(String, SocketAddr)>,
    injected: Vec<Injected>,
    captured: Vec<Captured>,
    wru: Vec<(String, WhoAreYouRef)>,
    start: tokio::time::Instant,
    step: usize,
    dead: bool,
    forgotten: usize,
    wru_count: usize,
}

fn mk_key(seed: u8) -> CombinedKey {
    let mut b = [seed; 32];
    b[0] = 1;
    b[31] = seed.wrapping_mul(31).wrapping_add(7);
    CombinedKey::secp256k1_from_bytes(&mut b).unwrap()
}
fn clone_key(k: &CombinedKey) -> CombinedKey {
    match k {
        CombinedKey::Secp256k1(sk) => CombinedKey::Secp256k1(sk.clone()),
        CombinedKey::Ed25519(sk) => CombinedKey::Ed25519(sk.clone()),
    }
}
fn mk_enr(key: &CombinedKey, addr: Option<SocketAddr>, seq: u64) -> Enr {
    let mut b = Enr::builder();
    b.seq(seq);
    match addr {
        Some(SocketAddr::V4(a)) => {
            b.ip4(*a.ip());
            b.udp4(a.port());
        }
        Some(SocketAddr::V6(a)) => {
            b.ip6(*a.ip());
            b.udp6(a.port());
        }
        None => {}
    }
    b.build(key).unwrap()
}
/// The second party (p2) lives on IPv6, the others on IPv4: the handler's record-against-source check has one arm per family.
fn sock(d: u8, port: u16) -> SocketAddr {
    if d == 2 {
        SocketAddr::new(std::net::Ipv6Addr::new(0x2001, 0xdb8, 0, 0, 0, 0, 0, d as u16).into(), port)
    } else {
        SocketAddr::new(Ipv4Addr::new(10, 0, 0, d).into(), port)
    }
}

fn rid_bytes(name: &str) -> Vec<u8> {
    // r<N> -> [N], x<N> -> [0xA0+N] (requests made by peers), anything else -> raw bytes of the name
    let (c, n) = name.split_at(1);
    match (c, n.parse::<u8>()) {
        ("r", Ok(n)) => vec![n],
        ("x", Ok(n)) => vec![0xA0u8.wrapping_add(n)],
        _ => name.as_bytes().to_vec(),
    }
}

impl World {
    pub fn new(cfg: &Value) -> World {
        let retries = cfg.get("retries").and_then(|x| x.as_u64()).unwrap_or(1) as u8;
        let cap = cfg.get("cap").and_then(|x| x.as_u64()).unwrap_or(1000) as usize;
        let ttl = cfg.get("sess_ttl").and_then(|x| x.as_u64()).unwrap_or(86400);
        let local_key = mk_key(0x11);
        let laddr = sock(100, 9000);
        let local_enr = mk_enr(&local_key, Some(laddr), 1);
        let local_id = local_enr.node_id();
        let config = ConfigBuilder::new(ListenConfig::Ipv4 { ip: Ipv4Addr::new(10, 0, 0, 100), port: 9000 })
            .request_timeout(Duration::from_millis(REQ_TIMEOUT_TICKS * TICK_MS))
            .request_retries(retries)
            .session_timeout(Duration::from_millis(ttl * SESS_UNIT_MS + SESS_UNIT_MS / 2))
            .session_cache_capacity(cap)
            .build();
        let h = verif::spawn_handler(
            local_enr.clone(),
            clone_key(&local_key),
            config,
            vec![laddr],
        );
        // parties: p1..p3 honest peers, A attacker. a<N> is p<N>'s record address, a<N>b another port of it.
        let mut parties = vec![];
        let mut addrs = vec![("aL".to_string(), laddr)];
        for (i, name) in ["p1", "p2", "p3", "A"].iter().enumerate() {
            // p3 is an Ed25519 identity: it can be named, challenged and impersonated like any node, but the crate's handshake (ECDH,
            // id-signature) only works for secp256k1 keys, so p3 itself never completes one
            let key = if *name == "p3" { CombinedKey::ed25519_from_bytes(&mut [0x41u8; 32]).unwrap() } else { mk_key(0x21 + i as u8 * 0x10) };
            let d = if *name == "A" { 66 } else { i as u8 + 1 };
            let a = sock(d, 9001 + i as u16);
            let ab = sock(d, 9011 + i as u16);
            let aname = if *name == "A" { "aA".to_string() } else { format!("a{}", i + 1) };
            addrs.push((aname.clone(), a));
            addrs.push((format!("{aname}b"), ab));
            let mut enrs = HashMap::new();
            for seq in 1..=3u64 {
                enrs.insert(seq, mk_enr(&key, Some(a), seq));
            }
            // seq 9: a record without address fields (verifies at any address)
            enrs.insert(9, mk_enr(&key, None, 9));
            let id = enrs[&1].node_id();
            parties.push(Party { name: name.to_string(), key, id, enrs, addrs: vec![a, ab], sessions: vec![], from_l: vec![], mine: vec![] });
        }
        World {
            h,
            local_key,
            local_enr,
            local_id,
            parties,
            intern: Interner::default(),
            addrs,
            injected: vec![],
            captured: vec![],
            wru: vec![],
            start: tokio::time::Instant::now(),
            step: 0,
            dead: false,
            forgotten: 0,
            wru_count: 0,
        }
    }

    fn addr(&self, name: &str) -> SocketAddr {
        self.addrs.iter().find(|(n, _)| n == name).map(|(_, a)| *a).unwrap_or_else(|| panic!("unknown address {name}"))
    }
    fn addr_name(&self, a: &SocketAddr) -> String {
        self.addrs.iter().find(|(_, x)| x == a).map(|(n, _)| n.clone()).unwrap_or_else(|| a.to_string())
    }
    fn party(&self, name: &str) -> usize {
        self.parties.iter().position(|p| p.name == name).unwrap_or_else(|| panic!("unknown party {name}"))
    }
    fn id_name(&self, id: &NodeId) -> String {
        if *id == self.local_id {
            return "L".into();
        }
        self.parties.iter().find(|p| p.id == *id).map(|p| p.name.clone()).unwrap_or_else(|| "?".into())
    }
    fn rec_name(&self, e: &Enr) -> String {
        if *e == self.local_enr {
            return "L:1".into();
        }
        for p in &self.parties {
            for (s, x) in &p.enrs {
                if x == e {
                    return format!("{}:{}", p.name, s);
                }
            }
        }
        format!("?{}:{}", self.id_name(&e.node_id()), e.seq())
    }
    fn rec_of(&self, spec: &str) -> Option<Enr> {
        // "none" | "<party>:<seq>"
        if spec == "none" {
            return None;
        }
        let (p, s) = spec.split_once(':').expect("record spec party:seq");
        Some(self.parties[self.party(p)].enrs[&s.parse::<u64>().unwrap()].clone())
    }
    fn rid_name(&mut self, id: &RequestId) -> String {
        let b = &id.0;
        if b.len() == 1 && b[0] < 0xA0 {
            format!("r{}", b[0])
        } else if b.len() == 1 {
            format!("x{}", b[0] - 0xA0)
        } else {
            self.intern.name('q', b) // request ids the application never submitted (internal ones)
        }
    }

    fn body_req(&self, kind: &str) -> RequestBody {
        match kind {
            "findnode" => RequestBody::FindNode { distances: vec![255, 256] },
            "findnode0" => RequestBody::FindNode { distances: vec![0] },
            "talk" => RequestBody::Talk { protocol: b"p".to_vec(), request: b"hello".to_vec() },
            _ => RequestBody::Ping { enr_seq: 1 },
        }
    }
    fn body_resp(&self, m: &Value) -> ResponseBody {
        match m.get("body").and_then(|x| x.as_str()).unwrap_or("pong") {
            "nodes" => {
                let total = m.get("total").and_then(|x| x.as_u64()).unwrap_or(1);
                let nodes = match m.get("rec").and_then(|x| x.as_str()) {
                    Some(r) => self.rec_of(r).into_iter().collect(),
                    None => vec![],
                };
                ResponseBody::Nodes { total, nodes }
            }
            "talk" => ResponseBody::Talk { response: b"re".to_vec() },
            _ => ResponseBody::Pong { enr_seq: 1, ip: Ipv4Addr::new(10, 0, 0, 100).into(), port: std::num::NonZeroU16::new(9000).unwrap() },
        }
    }
    fn req_kind(b: &RequestBody) -> &'static str {
        match b {
            RequestBody::Ping { .. } => "ping",
            RequestBody::FindNode { distances } if distances == &vec![0] => "findnode0",
            RequestBody::FindNode { .. } => "findnode",
            RequestBody::Talk { .. } => "talk",
        }
    }
    fn resp_kind(b: &ResponseBody) -> &'static str {
        match b {
            ResponseBody::Pong { .. } => "pong",
            ResponseBody::Nodes { .. } => "nodes",
            ResponseBody::Talk { .. } => "talk",
        }
    }
    fn plain_of(&self, m: &Value) -> Vec<u8> {
        // {"t":"req","xid":"x1","body":"ping"} | {"t":"resp","rid":"r1","body":"pong|nodes","total":n,"rec":..} | {"t":"junk"}
        match util::s(m, "t") {
            "req" => Message::Request(Request { id: RequestId(rid_bytes(util::s(m, "xid"))), body: self.body_req(m.get("body").and_then(|x| x.as_str()).unwrap_or("ping")) }).encode(),
            "resp" => {
                let rid = util::s(m, "rid");
                let idb = self.intern.bytes(rid).unwrap_or_else(|| rid_bytes(rid));
                Message::Response(Response { id: RequestId(idb), body: self.body_resp(m) }).encode()
            }
            _ => vec![0xff, 0x00, 0x01],
        }
    }
    fn describe_plain(&mut self, plain: &[u8]) -> Value {
        match Message::decode(plain) {
            Ok(Message::Request(r)) => json!({"t": "req", "rid": self.rid_name(&r.id), "kind": Self::req_kind(&r.body)}),
            Ok(Message::Response(r)) => {
                let total = if let ResponseBody::Nodes { total, .. } = &r.body { *total } else { 1 };
                json!({"t": "resp", "rid": self.rid_name(&r.id), "kind": Self::resp_kind(&r.body), "total": total})
            }
            Err(_) => json!({"t": "undecodable"}),
        }
    }

    // ------------------------------------------------------------------ observation of L's output
    fn observe_wire(&mut self) -> Vec<Value> {
        let mut net = vec![];
        for (dst, bytes) in self.h.drain_wire() {
            let same = self.intern.known('b', &bytes);
            let bname = self.intern.name('b', &bytes);
            self.captured.push(Captured { bytes: bytes.clone() });
            let mut o = Map::new();
            o.insert("to".into(), json!(self.addr_name(&dst.socket_addr)));
            o.insert("id".into(), json!(self.id_name(&dst.node_id)));
            o.insert("bytes".into(), json!(bname));
            o.insert("same_as".into(), json!(same.unwrap_or_else(|| "none".into())));
            o.insert("cap".into(), json!(self.captured.len()));
            let (pv, aad) = match verif::packet_decode(&dst.node_id, &bytes) {
                Ok(x) => x,
                Err(e) => {
                    o.insert("kind".into(), json!("undecodable"));
                    o.insert("err".into(), json!(e));
                    net.push(Value::Object(o));
                    continue;
                }
            };
            o.insert("len".into(), json!(bytes.len()));
            match &pv.kind {
                PacketKind::WhoAreYou { id_nonce, enr_seq } => {
                    let idn = self.intern.name('i', id_nonce);
                    let echo = self.intern.known('m', &pv.nonce).or_else(|| self.intern.known('n', &pv.nonce)).unwrap_or_else(|| "?".into());
                    o.insert("kind".into(), json!("way"));
                    o.insert("idn".into(), json!(idn));
                    // process-wide ledger: was this id-nonce already used by a different WHOAREYOU datagram of this run?
                    let rep = {
                        let mut g = ALL_IDN.lock().unwrap();
                        let first = g.get_or_insert_with(HashMap::new).entry(id_nonce.to_vec()).or_insert_with(|| bytes.to_vec());
                        first.as_slice() != &bytes[..]
                    };
                    o.insert("idnrep".into(), json!(rep));
                    o.insert("echo".into(), json!(echo));
                    o.insert("enrseq".into(), json!(enr_seq));
                    o.insert("n".into(), json!("none"));
                    o.insert("key".into(), json!("none"));
                    o.insert("holder".into(), json!("none"));
                    o.insert("body".into(), json!({"t": "none"}));
                    for p in self.parties.iter_mut() {
                        // the attacker is on the path: it reads every WHOAREYOU L sends and may answer it from a spoofed source
                        if p.addrs.contains(&dst.socket_addr) || p.name == "A" {
                            p.from_l.push(ChallengeFromL { idn: idn.clone(), dst_id: dst.node_id, addr: dst.socket_addr, aad: aad.clone() });
                        }
                    }
                }
                PacketKind::Handshake { src_id, enr_record, .. } => {
                    let n = self.intern.name('n', &pv.nonce);
                    o.insert("kind".into(), json!("hs"));
                    o.insert("n".into(), json!(n));
                    o.insert("src".into(), json!(self.id_name(src_id)));
                    o.insert("rec".into(), json!(enr_record.as_ref().map(|e| self.rec_name(e)).unwrap_or_else(|| "none".into())));
                    // which party can complete this handshake? (needs the static key L ran ECDH with and the challenge it answers)
                    let mut found = None;
                    'outer: for pi in 0..self.parties.len() {
                        if !self.parties[pi].addrs.contains(&dst.socket_addr) {
                            continue;
                        }
                        for ci in (0..self.parties[pi].mine.len()).rev() {
                            let c = &self.parties[pi].mine[ci];
                            let r = PeerSession::accept_handshake(&self.parties[pi].key, &c.claimed, Some(self.local_enr.clone()), &c.aad, &pv);
                            if let Ok((mut sess, _enr)) = r {
                                if let Ok(plain) = sess.decrypt(pv.nonce, &pv.message, &aad) {
                                    found = Some((pi, ci, sess, plain));
                                    break 'outer;
                                }
                            }
                        }
                    }
                    match found {
                        Some((pi, ci, sess, plain)) => {
                            let claimed = self.parties[pi].mine[ci].claimed;
                            self.parties[pi].mine.remove(ci);
                            let kid = format!("k{}", self.next_kid());
                            o.insert("key".into(), json!(kid));
                            o.insert("holder".into(), json!(self.parties[pi].name));
                            o.insert("body".into(), self.describe_plain(&plain));
                            self.parties[pi].sessions.push(PeerSess { kid, sess, claimed });
                        }
                        None => {
                            o.insert("key".into(), json!("none"));
                            o.insert("holder".into(), json!("none"));
                            o.insert("body".into(), json!({"t": "none"}));
                        }
                    }
                }
                PacketKind::Message { src_id } => {
                    let n = self.intern.name('n', &pv.nonce);
                    o.insert("n".into(), json!(n));
                    o.insert("src".into(), json!(self.id_name(src_id)));
                    let mut found = None;
                    'o2: for pi in 0..self.parties.len() {
                        for si in (0..self.parties[pi].sessions.len()).rev() {
                            if let Ok(plain) = self.parties[pi].sessions[si].sess.decrypt(pv.nonce, &pv.message, &aad) {
                                found = Some((pi, si, plain));
                                break 'o2;
                            }
                        }
                    }
                    match found {
                        Some((pi, si, plain)) => {
                            o.insert("kind".into(), json!("msg"));
                            o.insert("key".into(), json!(self.parties[pi].sessions[si].kid));
                            o.insert("holder".into(), json!(self.parties[pi].name));
                            o.insert("body".into(), self.describe_plain(&plain));
                        }
                        None => {
                            o.insert("kind".into(), json!("rand"));
                            o.insert("key".into(), json!("none"));
                            o.insert("holder".into(), json!("none"));
                            o.insert("body".into(), json!({"t": "none"}));
                        }
                    }
                }
            }
            net.push(Value::Object(o));
        }
        net
    }

    fn next_kid(&self) -> usize {
        self.parties.iter().map(|p| p.sessions.len()).sum::<usize>() + self.forgotten + 1
    }

    fn observe_out(&mut self) -> Vec<Value> {
        let mut out = vec![];
        while let Ok(ev) = self.h.from_handler.try_recv() {
            out.push(match ev {
                HandlerOut::Established(enr, a, dir) => json!({"e": "Established", "id": self.id_name(&enr.node_id()), "addr": self.addr_name(&a),
                    "dir": if dir == ConnectionDirection::Incoming {"In"} else {"Out"}, "rec": self.rec_name(&enr)}),
                HandlerOut::Request(na, r) => json!({"e": "Request", "id": self.id_name(&na.node_id), "addr": self.addr_name(&na.socket_addr),
                    "rid": self.rid_name(&r.id), "kind": Self::req_kind(&r.body), "plain": self.intern.name('b', &Message::Request(*r).encode())}),
                HandlerOut::Response(na, r) => {
                    let total = if let ResponseBody::Nodes { total, .. } = &r.body { *total } else { 1 };
                    json!({"e": "Response", "id": self.id_name(&na.node_id), "addr": self.addr_name(&na.socket_addr),
                        "rid": self.rid_name(&r.id), "kind": Self::resp_kind(&r.body), "total": total, "plain": self.intern.name('b', &Message::Response(*r).encode())})
                }
                HandlerOut::WhoAreYou(r) => {
                    let na = &r.0;
                    let nm = format!("w{}", self.wru_count + 1);
                    self.wru_count += 1;
                    let v = json!({"e": "WhoAreYou", "id": self.id_name(&na.node_id), "addr": self.addr_name(&na.socket_addr), "ref": nm});
                    self.wru.push((nm, r));
                    v
                }
                HandlerOut::RequestFailed(id, err) => json!({"e": "RequestFailed", "rid": self.rid_name(&id), "err": format!("{err:?}").split('(').next().unwrap()}),
                HandlerOut::UnverifiableEnr { enr, socket, node_id } => json!({"e": "Unverifiable", "id": self.id_name(&node_id), "addr": self.addr_name(&socket), "rec": self.rec_name(&enr)}),
                HandlerOut::UnrecognizedFrame(f) => json!({"e": "Unrecognized", "addr": self.addr_name(&f.src_address)}),
                HandlerOut::ExpiredSessions(v) => json!({"e": "Expired", "addrs": v.iter().map(|na| json!([self.id_name(&na.node_id), self.addr_name(&na.socket_addr)])).collect::<Vec<_>>()}),
            });
        }
        out
    }

    /// In-place tampering: an input carrying "mut" delivers only the tampered variant of the datagram it describes.
    fn tamper(&self, inp: &Value, bytes: Vec<u8>, info: &mut Map<String, Value>) -> Vec<u8> {
        match inp.get("mut") {
            Some(m) => {
                let other = m.get("other").and_then(|x| x.as_u64()).and_then(|o| self.injected.get((o as usize).wrapping_sub(1))).map(|x| x.bytes.clone());
                match crate::mutate::mutate(&self.local_id, &bytes, other.as_deref(), m, &self.parties[1].id) {
                    Some(t) => {
                        info.insert("changed".into(), json!(t != bytes));
                        t
                    }
                    None => {
                        info.insert("changed".into(), json!(false));
                        bytes
                    }
                }
            }
            None => bytes,
        }
    }

    async fn inject(&mut self, from: SocketAddr, bytes: Vec<u8>) -> usize {
        self.h.inject_datagram(from, &bytes).await;
        self.injected.push(Injected { bytes });
        self.injected.len()
    }

    /// Applies one input; returns extra fields describing how it was resolved.
    async fn apply(&mut self, inp: &Value) -> Value {
        let k = util::s(inp, "k");
        let mut info = Map::new();
        macro_rules! unresolved {
            ($why:expr) => {{
                info.insert("unresolved".into(), json!($why));
                return Value::Object(info);
            }};
        }
        match k {
            "AppRequest" => {
                let pi = self.party(util::s(inp, "peer"));
                let addr = self.addr(util::s(inp, "addr"));
                let with_enr = inp.get("enr").and_then(|x| x.as_bool()).unwrap_or(true);
                let p = &self.parties[pi];
                let contact = if with_enr {
                    let seq = inp.get("seq").and_then(|x| x.as_u64()).unwrap_or(1);
                    NodeContact::try_from_enr(p.enrs[&seq].clone(), if addr.is_ipv6() { IpMode::Ip6 } else { IpMode::default() }).ok().unwrap()
                } else {
                    NodeContact::new(p.enrs[&1].public_key(), addr, None)
                };
                let body = self.body_req(inp.get("body").and_then(|x| x.as_str()).unwrap_or("ping"));
                let req = Request { id: RequestId(rid_bytes(util::s(inp, "rid"))), body };
                let _ = self.h.to_handler.send(HandlerIn::Request(contact, Box::new(req)));
            }
            "AppResponse" => {
                let pi = self.party(util::s(inp, "peer"));
                let na = NodeAddress::new(self.addr(util::s(inp, "addr")), self.parties[pi].id);
                let resp = Response { id: RequestId(rid_bytes(util::s(inp, "xid"))), body: self.body_resp(inp) };
                let _ = self.h.to_handler.send(HandlerIn::Response(na, Box::new(resp)));
            }
            "AppWhoAreYou" => {
                // answers the query named "ref" (or the oldest pending one) with the record "rec"
                let pos = match inp.get("ref").and_then(|x| x.as_str()) {
                    Some(r) => self.wru.iter().position(|(n, _)| n == r),
                    None => if self.wru.is_empty() { None } else { Some(0) },
                };
                let pos = match pos { Some(p) => p, None => unresolved!("no such pending WhoAreYou query") };
                let (nm, r) = self.wru.remove(pos);
                info.insert("ref".into(), json!(nm));
                let rec = self.rec_of(inp.get("rec").and_then(|x| x.as_str()).unwrap_or("none"));
                let _ = self.h.to_handler.send(HandlerIn::WhoAreYou(r, rec));
            }
            "PeerRandom" => {
                let claim = self.parties[self.party(util::s(inp, "claim"))].id;
                let pv = verif::random_packet(&claim);
                let n = self.intern.name('m', &pv.nonce);
                info.insert("n".into(), json!(n));
                let idx = self.inject(self.addr(util::s(inp, "from")), pv.encode(&self.local_id)).await;
                info.insert("inj".into(), json!(idx));
            }
            "PeerWhoAreYou" => {
                // echo = name of a nonce L used (n*), "seq" = enr_seq the peer claims to know of L
                let pi = self.party(util::s(inp, "party"));
                let echo = match self.intern.bytes(util::s(inp, "echo")) { Some(b) => b, None => unresolved!("unknown nonce name") };
                let mut nonce = [0u8; 12];
                nonce.copy_from_slice(&echo);
                let idn: [u8; 16] = rand::random();
                let pv = verif::whoareyou_packet(nonce, idn, inp.get("seq").and_then(|x| x.as_u64()).unwrap_or(1));
                info.insert("idn".into(), json!(self.intern.name('j', &idn)));
                let claim = inp.get("claim").and_then(|x| x.as_str()).map(|c| self.parties[self.party(c)].id).unwrap_or(self.parties[pi].id);
                self.parties[pi].mine.push(MyChallenge { aad: pv.authenticated_data(), claimed: claim });
                let idx = self.inject(self.addr(util::s(inp, "from")), pv.encode(&self.local_id)).await;
                info.insert("inj".into(), json!(idx));
            }
            "PeerHandshake" => {
                let pi = self.party(util::s(inp, "party"));
                let claim = self.parties[self.party(util::s(inp, "claim"))].id;
                let from = self.addr(util::s(inp, "from"));
                let chal_name = inp.get("chal").and_then(|x| x.as_str()).unwrap_or("last");
                // L's WHOAREYOU this answers: by id-nonce name, or the latest one L sent to (claim, from)
                let ci = if chal_name == "last" {
                    self.parties[pi].from_l.iter().rposition(|c| c.dst_id == claim && c.addr == from)
                        .or_else(|| self.parties[pi].from_l.iter().rposition(|c| c.dst_id == claim))
                } else {
                    self.parties[pi].from_l.iter().rposition(|c| c.idn == chal_name)
                };
                let ci = match ci { Some(c) => c, None => unresolved!("no WHOAREYOU from L to answer") };
                let aad = self.parties[pi].from_l[ci].aad.clone();
                info.insert("chal".into(), json!(self.parties[pi].from_l[ci].idn));
                let rec = self.rec_of(inp.get("rec").and_then(|x| x.as_str()).unwrap_or("none"));
                let plain = self.plain_of(&inp["msg"]);
                let lcontact = NodeContact::try_from_enr(self.local_enr.clone(), IpMode::default()).ok().unwrap();
                let sig = inp.get("sig").and_then(|x| x.as_str()).unwrap_or("own");
                let signing = if sig == "bad" { mk_key(0xEE) } else { clone_key(&self.parties[pi].key) };
                // "junk0" / "junk63" / "zero64": bytes that are no signature at all in the place of the id-signature
                let crafted = match sig {
                    // "relay": the claimed node's genuine signature, but made for a handshake with the *relaying* party (which passed the
                    // node's challenge on as its own): it names the relayer, not this node, as the challenger
                    "relay" => {
                        let ci = self.parties.iter().position(|p| p.id == claim).unwrap_or(pi);
                        let renr = self.parties[pi].enrs[&1].clone();
                        match NodeContact::try_from_enr(renr.clone(), IpMode::Ip4).or_else(|_| NodeContact::try_from_enr(renr, IpMode::Ip6)) {
                            Ok(rcontact) => PeerSession::answer_challenge(&rcontact, &clone_key(&self.parties[ci].key), rec, &claim, &aad, &plain),
                            Err(_) => Err("relayer has no contactable record".to_string()),
                        }
                    }
                    "junk0" => PeerSession::answer_challenge_with_sig(&lcontact, vec![], rec, &claim, &aad, &plain),
                    "junk63" => PeerSession::answer_challenge_with_sig(&lcontact, vec![0x5a; 63], rec, &claim, &aad, &plain),
                    "zero64" => PeerSession::answer_challenge_with_sig(&lcontact, vec![0; 64], rec, &claim, &aad, &plain),
                    _ => PeerSession::answer_challenge(&lcontact, &signing, rec, &claim, &aad, &plain),
                };
                let (pv, sess) = match crafted {
                    Ok(x) => x,
                    Err(e) => unresolved!(format!("answer_challenge: {e}")),
                };
                let kid = format!("k{}", self.next_kid());
                info.insert("key".into(), json!(kid));
                info.insert("n".into(), json!(self.intern.name('m', &pv.nonce)));
                info.insert("plain".into(), json!(self.intern.name('b', &plain)));
                self.parties[pi].sessions.push(PeerSess { kid, sess, claimed: claim });
                let bytes = self.tamper(inp, pv.encode(&self.local_id), &mut info);
                let idx = self.inject(from, bytes).await;
                info.insert("inj".into(), json!(idx));
            }
            "PeerMessage" if inp.get("key").and_then(|x| x.as_str()) == Some("zero") => {
                // a message sealed under the all-zero key, naming `claim` as its sender: keys nobody ever negotiated with the node
                let claim = self.parties[self.party(util::s(inp, "claim"))].id;
                let plain = self.plain_of(&inp["msg"]);
                let mut z = PeerSession::with_keys([0u8; 16], [0u8; 16]);
                let pv = match z.encrypt(claim, &plain) { Ok(p) => p, Err(e) => unresolved!(e) };
                info.insert("n".into(), json!(self.intern.name('m', &pv.nonce)));
                info.insert("plain".into(), json!(self.intern.name('b', &plain)));
                let idx = self.inject(self.addr(util::s(inp, "from")), pv.encode(&self.local_id)).await;
                info.insert("inj".into(), json!(idx));
            }
            "PeerMessage" => {
                let pi = self.party(util::s(inp, "party"));
                let keysel = inp.get("key").and_then(|x| x.as_str()).unwrap_or("cur");
                let si = if keysel == "cur" {
                    if self.parties[pi].sessions.is_empty() { None } else { Some(self.parties[pi].sessions.len() - 1) }
                } else {
                    self.parties[pi].sessions.iter().position(|s| s.kid == keysel)
                };
                let si = match si { Some(s) => s, None => unresolved!("party has no such session") };
                let plain = self.plain_of(&inp["msg"]);
                let claimed = self.parties[pi].sessions[si].claimed;
                let pv = match self.parties[pi].sessions[si].sess.encrypt(claimed, &plain) { Ok(p) => p, Err(e) => unresolved!(e) };
                info.insert("key".into(), json!(self.parties[pi].sessions[si].kid));
                info.insert("claim".into(), json!(self.id_name(&claimed)));
                info.insert("n".into(), json!(self.intern.name('m', &pv.nonce)));
                info.insert("plain".into(), json!(self.intern.name('b', &plain)));
                let bytes = self.tamper(inp, pv.encode(&self.local_id), &mut info);
                let idx = self.inject(self.addr(util::s(inp, "from")), bytes).await;
                info.insert("inj".into(), json!(idx));
            }
            "PeerForget" => {
                let pi = self.party(util::s(inp, "party"));
                self.forgotten += self.parties[pi].sessions.len();
                self.parties[pi].sessions.clear();
            }
            "Replay" | "Reflect" => {
                let idx = util::i(inp, "idx") as usize;
                let bytes = if k == "Replay" { self.injected.get(idx.wrapping_sub(1)).map(|x| x.bytes.clone()) } else { self.captured.get(idx.wrapping_sub(1)).map(|x| x.bytes.clone()) };
                let bytes = match bytes { Some(b) => b, None => unresolved!("no such datagram") };
                let i2 = self.inject(self.addr(util::s(inp, "from")), bytes).await;
                info.insert("inj".into(), json!(i2));
            }
            "Mutate" => {
                let idx = util::i(inp, "idx") as usize;
                let bytes = match self.injected.get(idx.wrapping_sub(1)) { Some(b) => b.bytes.clone(), None => unresolved!("no such datagram") };
                let other = inp["mut"].get("other").and_then(|x| x.as_u64()).and_then(|o| self.injected.get(o as usize - 1)).map(|x| x.bytes.clone());
                let m = match crate::mutate::mutate(&self.local_id, &bytes, other.as_deref(), &inp["mut"], &self.parties[1].id) { Some(m) => m, None => unresolved!("mutation not applicable") };
                info.insert("changed".into(), json!(m != bytes));
                let i2 = self.inject(self.addr(util::s(inp, "from")), m).await;
                info.insert("inj".into(), json!(i2));
            }
            "Advance" => {
                tokio::time::sleep(Duration::from_millis(util::i(inp, "ticks") as u64 * TICK_MS)).await;
            }
            "AgeSessions" => {
                self.h.age_sessions(Duration::from_millis(util::i(inp, "units") as u64 * SESS_UNIT_MS));
            }
            "Quiesce" => {
                // past every possible deadline: retries * timeout for requests, timeout for challenges
                for _ in 0..4 {
                    tokio::time::sleep(Duration::from_millis(REQ_TIMEOUT_TICKS * TICK_MS + TICK_MS)).await;
                    tokio::time::sleep(Duration::from_millis(1)).await;
                }
            }
            // the process-global ban list gets a permanent, a far-future and an already expired entry (IPs and node ids alike); the
            // handler's periodic unban check (every 300 s of its clock) may remove the expired ones only
            "Bans" => {
                let mut l = discv5::verif::ban_list_snapshot();
                let now = std::time::Instant::now();
                let (perm, future, past) = (None, Some(now + Duration::from_secs(86_400)), now.checked_sub(Duration::from_secs(1)));
                for (k, t) in [(1u8, perm), (2, future)] {
                    l.ban_ips.insert(std::net::IpAddr::V4(Ipv4Addr::new(10, 99, 0, k)), t);
                    l.ban_nodes.insert(self.parties[(k - 1) as usize].id, t);
                }
                if let Some(p) = past {
                    l.ban_ips.insert(std::net::IpAddr::V4(Ipv4Addr::new(10, 99, 0, 3)), Some(p));
                    l.ban_nodes.insert(self.parties[2].id, Some(p));
                }
                discv5::verif::ban_list_set(l);
            }
            "Nop" => {}
            other => panic!("handler: unknown input kind {other}"),
        }
        Value::Object(info)
    }

    pub async fn step(&mut self, inp: &Value) -> Value {
        self.step += 1;
        let info = self.apply(inp).await;
        // barrier: on a paused clock this returns when every task is idle
        tokio::time::sleep(Duration::from_millis(1)).await;
        let mut out = self.observe_out();
        // the channel to the application holds 50 events: a handler that was blocked on it goes on once it has been drained
        for _ in 0..8 {
            tokio::time::sleep(Duration::from_millis(1)).await;
            let more = self.observe_out();
            if more.is_empty() {
                break;
            }
            out.extend(more);
        }
        let net = self.observe_wire();
        let mut exp = Map::new();
        for (a, n) in self.h.expected.read().iter() {
            exp.insert(self.addr_name(a), json!(n));
        }
        // snapshot of the bookkeeping (no time passes: the command is processed while we yield)
        let mut snap = json!({});
        if !self.dead {
            let slot = self.h.request_snapshot();
            for _ in 0..200 {
                if slot.lock().is_some() || self.h.to_handler.is_closed() {
                    break;
                }
                tokio::task::yield_now().await;
            }
            let taken = slot.lock().take();
            match taken {
                Some(s) => {
                    let sessions: Vec<Value> = s.sessions.iter().map(|(na, age)| json!([self.id_name(&na.node_id), self.addr_name(&na.socket_addr), (age.as_millis() as u64) / SESS_UNIT_MS])).collect();
                    let chal: Vec<Value> = s.challenges.iter().map(|na| json!([self.id_name(&na.node_id), self.addr_name(&na.socket_addr)])).collect();
                    let mut active = vec![];
                    for (na, id, int, hs, re, init) in s.active.iter() {
                        let rn = self.rid_name(id);
                        active.push(json!([self.id_name(&na.node_id), self.addr_name(&na.socket_addr), rn, int, hs, re, init]));
                    }
                    // requests of the handler's own that were queued without reaching the wire get their names now (creation order)
                    for id in s.pending_internal.iter() {
                        let _ = self.rid_name(id);
                    }
                    let pending: Vec<Value> = s.pending.iter().map(|(na, n)| json!([self.id_name(&na.node_id), self.addr_name(&na.socket_addr), n])).collect();
                    snap = json!({"sessions": sessions, "chal": chal, "active": active, "nonces": s.nonce_mappings, "pending": pending});
                }
                None => {
                    self.dead = true;
                }
            }
        }
        let mut inp2 = inp.clone();
        if let (Some(o), Value::Object(i)) = (inp2.as_object_mut(), info) {
            for (k, v) in i {
                o.insert(k, v);
            }
        }
        let mut out = out;
        if self.dead {
            out.push(json!({"e": "Panic"}));
        }
        // the global ban list: "perm" / "future" / "past" entries of op Bans that are (still) there
        let bl = discv5::verif::ban_list_snapshot();
        let mut bans: Vec<String> = vec![];
        for (k, name) in [(1u8, "perm"), (2, "future"), (3, "past")] {
            if bl.ban_ips.contains_key(&std::net::IpAddr::V4(Ipv4Addr::new(10, 99, 0, k))) {
                bans.push(format!("ip:{name}"));
            }
            if bl.ban_nodes.contains_key(&self.parties[(k - 1) as usize].id) {
                bans.push(format!("node:{name}"));
            }
        }
        json!({"i": self.step, "t": (tokio::time::Instant::now() - self.start).as_millis() as u64, "in": inp2, "out": out, "net": net, "exp": Value::Object(exp), "snap": snap, "bans": bans})
    }
}

pub fn run_behaviours(behaviours: &[Vec<Value>], out: &mut Out) -> Result<(), String> {
    for b in behaviours {
        let rt = tokio::runtime::Builder::new_current_thread().enable_time().start_paused(true).build().map_err(|e| e.to_string())?;
        rt.block_on(async {
            let mut w: Option<World> = None;
            for inp in b {
                if util::s(inp, "k") == "Reset" {
                    discv5::verif::ban_list_reset();     // the permit / ban list is process-global
                    w = Some(World::new(inp));
                    out.emit(&json!({"i": 0, "t": 0, "in": inp, "out": [], "net": [], "exp": {}, "snap": {}}));
                    continue;
                }
                let world = w.as_mut().expect("behaviour must start with Reset");
                let ev = world.step(inp).await;
                out.emit(&ev);
            }
        });
        drop(rt);
    }
    Ok(())
}
