//! `vh` — conformance harness binding the TLA+ specifications in /verif/spec to the real
//! sigp/discv5 code (path dependency on /repo, built with `--cfg discv5_verif`).
//!
//!   vh replay <component> <behaviours.ndjson> <out.ndjson>   step TLC-generated behaviours through the code
//!   vh drive  <component> <seed> <n> <out.ndjson>            seeded random driver, records an implementation trace
//!
//! A behaviours file holds one JSON array of operations per line (first op = `reset` with the
//! configuration).  The output holds one JSON object per executed operation:
//! `{"op":…, "ret":…, "st":…}` — the operation, what the code returned, and the projected state
//! after it.  A panic of the code under test is recorded as `"ret":{"panic":"…"}`.
mod codec;
mod handler;
mod mutate;
mod seq;
mod svc;
mod util;

use std::process::exit;

fn main() {
    let args: Vec<String> = std::env::args().collect();
    if args.len() < 3 && !(args.len() == 2 && args[1] == "geometry") {
        eprintln!("usage: vh replay|drive <component> ...");
        exit(2);
    }
    let comp = args.get(2).map(|s| s.as_str()).unwrap_or("");
    let r = match args[1].as_str() {
        "replay" => {
            let behaviours = util::read_behaviours(&args[3]);
            let mut out = util::Out::create(&args[4]);
            match comp {
                "lru" => seq::lru::replay(&behaviours, &mut out),
                "kb" => seq::kb::replay(&behaviours, &mut out),
                "query" => seq::query::replay(&behaviours, &mut out),
                "filter" | "limiter" | "recv" => seq::filter::replay(&behaviours, &mut out),
                "handler" => handler::run_behaviours(&behaviours, &mut out),
                "svc" => svc::run_behaviours(&behaviours, &mut out),
                "pcodec" => codec::packet::replay(&behaviours, &mut out),
                "rcodec" => codec::rpc::replay(&behaviours, &mut out),
                _ => Err(format!("unknown component {comp}")),
            }
        }
        "drive" => {
            let seed: u64 = args[3].parse().expect("seed");
            let n: usize = args[4].parse().expect("n");
            let mut out = util::Out::create(&args[5]);
            match comp {
                "lru" => seq::lru::drive(seed, n, &mut out),
                "kb" => seq::kb::drive(seed, n, &mut out),
                "query" => seq::query::drive(seed, n, &mut out),
                "pcodec" => codec::packet::drive(seed, n, &mut out),
                "rcodec" => codec::rpc::drive(seed, n, &mut out),
                "filter" => seq::filter::drive_filter(seed, n, &mut out),
                "limiter" => seq::filter::drive_limiter(seed, n, &mut out),
                "recv" => seq::filter::drive_recv(seed, n, &mut out),
                _ => Err(format!("unknown component {comp}")),
            }
        }
        "geometry" => {
            println!("{}", svc::geometry());
            Ok(())
        }
        _ => Err("unknown command".into()),
    };
    if let Err(e) = r {
        eprintln!("vh: error: {e}");
        exit(2);
    }
}
