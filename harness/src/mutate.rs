//! Datagram mutations for C02, made in the *unmasked* domain: the header is unmasked with the
//! destination id (AES-128-CTR, key = id[..16], iv = datagram[..16]), the field is changed, and the
//! header is masked again — so that a flip lands in the intended field and the datagram still
//! parses up to the point where authentication must reject it.
use aes::cipher::{generic_array::GenericArray, KeyIvInit, StreamCipher};
use discv5::enr::NodeId;
use serde_json::Value;
type Aes128Ctr64BE = ctr::Ctr64BE<aes::Aes128>;

fn mask(id: &NodeId, iv: &[u8], data: &mut [u8]) {
    let key = GenericArray::clone_from_slice(&id.raw()[..16]);
    let nonce = GenericArray::clone_from_slice(iv);
    let mut c = Aes128Ctr64BE::new(&key, &nonce);
    c.apply_keystream(data);
}

/// (unmasked bytes, end of header) of a datagram addressed to `id`; None if too short.
pub fn unmask(id: &NodeId, d: &[u8]) -> Option<(Vec<u8>, usize)> {
    if d.len() < 39 {
        return None;
    }
    let mut u = d.to_vec();
    let iv = d[..16].to_vec();
    // the keystream is continuous over static header + auth data: unmask the static part first to learn the size
    let mut st = d[16..39].to_vec();
    mask(id, &iv, &mut st);
    let auth = u16::from_be_bytes([st[21], st[22]]) as usize;
    let end = (39 + auth).min(d.len());
    let mut hdr = d[16..end].to_vec();
    mask(id, &iv, &mut hdr);
    u[16..end].copy_from_slice(&hdr);
    Some((u, end))
}

pub fn remask(id: &NodeId, u: &[u8], end: usize) -> Vec<u8> {
    let mut d = u.to_vec();
    let iv = u[..16].to_vec();
    let end = end.min(d.len());
    let mut hdr = u[16..end].to_vec();
    mask(id, &iv, &mut hdr);
    d[16..end].copy_from_slice(&hdr);
    d
}

fn range(field: &str, u: &[u8], end: usize) -> Option<(usize, usize)> {
    let n = u.len();
    Some(match field {
        "iv" => (0, 16),
        "proto" => (16, 22),
        "version" => (22, 24),
        "flag" => (24, 25),
        "nonce" => (25, 37),
        "authsize" => (37, 39),
        "authdata" => (39, end),
        "srcid" => (39, (39 + 32).min(end)),
        "authtail" => ((39 + 32).min(end), end), // handshake: sizes, signature, ephemeral key, record
        "ct" => (end, n.saturating_sub(16).max(end)),
        "tag" => (n.saturating_sub(16).max(end), n),
        _ => return None,
    })
}

/// mut = {"op":"flip","field":F,"bit":i} | {"op":"trunc","len":n} | {"op":"cut","n":k} | {"op":"extend","n":k}
///     | {"op":"grow_auth","n":k} | {"op":"shrink_auth","n":k}
///     | {"op":"splice","part":"header|body","other":idx} | {"op":"redirect"} | {"op":"set","field":F,"byte":b}
pub fn mutate(local: &NodeId, d: &[u8], other: Option<&[u8]>, m: &Value, other_id: &NodeId) -> Option<Vec<u8>> {
    let op = m.get("op")?.as_str()?;
    let (mut u, end) = unmask(local, d)?;
    match op {
        "flip" | "set" => {
            let (a, b) = range(m.get("field")?.as_str()?, &u, end)?;
            if b <= a {
                return None;
            }
            if op == "flip" {
                let bit = m.get("bit")?.as_u64()? as usize % ((b - a) * 8);
                u[a + bit / 8] ^= 1 << (bit % 8);
            } else {
                let pos = m.get("pos").and_then(|x| x.as_u64()).unwrap_or(0) as usize % (b - a);
                u[a + pos] = m.get("byte")?.as_u64()? as u8;
            }
            // a changed auth-data size moves the end of the masked region
            let auth = u16::from_be_bytes([u[37], u[38]]) as usize;
            Some(remask(local, &u, 39 + auth))
        }
        "grow_auth" => {
            // k extra bytes at the end of the auth-data, auth-data size adjusted: still a well-formed datagram
            let k = m.get("n")?.as_u64()? as usize;
            let auth = u16::from_be_bytes([u[37], u[38]]) as usize;
            let mut x = u[..end].to_vec();
            x.extend(std::iter::repeat(0xa5).take(k));
            x.extend_from_slice(&u[end..]);
            let na = (auth + k) as u16;
            x[37..39].copy_from_slice(&na.to_be_bytes());
            Some(remask(local, &x, 39 + auth + k))
        }
        "shrink_auth" => {
            let k = m.get("n")?.as_u64()? as usize;
            let auth = u16::from_be_bytes([u[37], u[38]]) as usize;
            if k == 0 || k > auth || end < k {
                return None;
            }
            let mut x = u[..end - k].to_vec();
            x.extend_from_slice(&u[end..]);
            let na = (auth - k) as u16;
            x[37..39].copy_from_slice(&na.to_be_bytes());
            Some(remask(local, &x, 39 + auth - k))
        }
        "trunc" => {
            let len = m.get("len")?.as_u64()? as usize;
            Some(d[..len.min(d.len())].to_vec())
        }
        "cut" => {
            let k = m.get("n")?.as_u64()? as usize;
            Some(d[..d.len().saturating_sub(k)].to_vec())
        }
        "extend" => {
            let k = m.get("n")?.as_u64()? as usize;
            let mut x = d.to_vec();
            x.extend(std::iter::repeat(0x5a).take(k));
            Some(x)
        }
        "splice" => {
            let o = other?;
            let (ou, oend) = unmask(local, o)?;
            let part = m.get("part")?.as_str()?;
            // header (iv + masked header) of one datagram with the body of the other
            let (hu, hend, body) = if part == "header" { (&u, end, &ou[oend..]) } else { (&ou, oend, &u[end..]) };
            let mut x = hu[..hend].to_vec();
            x.extend_from_slice(body);
            Some(remask(local, &x, hend))
        }
        "redirect" => Some(remask(other_id, &u, end)), // as if it had been addressed to another node
        _ => None,
    }
}
