//! Inbound packet filter (src/socket/filter/{mod,rate_limiter}.rs, src/permit_ban.rs, src/socket/recv.rs) — binding
//! for spec/Filter.tla (property C18).  Three systems under test, selected by the `reset` operation:
//!
//!  * `sut = "limiter"`: the GCRA `Limiter<u64>` through `LimiterFacade`, explicit time
//!    (`allows(now, key, tokens)`, `prune(limit)`); a second limiter that is never pruned gets the
//!    same `allows` calls (its verdict is logged as `sh`).
//!  * `sut = "filter"`: the real `Filter` through `FilterFacade` with the crate's own `RateLimiter`
//!    (built by `RateLimiterBuilder`), the process-global PERMIT_BAN_LIST driven through the public
//!    `Discv5::{ban_ip, permit_ip, ..}` API and read back with `ban_list_snapshot`.  A datagram
//!    (`pkt`) takes `initial_pass` and, if it passed and names a node id, `final_pass` — the order
//!    of `RecvHandler::handle_inbound`; both stage verdicts are logged.
//!  * `sut = "recv"`: the same filter inside the real `RecvHandler` (`RecvFacade`): a datagram
//!    (`dgram`: a random-data message packet naming a node id, a WHOAREYOU packet, or undecodable
//!    bytes) goes through `handle_inbound`; what reaches the packet handler is logged (drop /
//!    inbound / unrecognized).  `expect` / `unexpect` edit the expected-response map.
//!
//! In the last two a second instance whose limiter is never pruned judges every datagram first,
//! against the same ban list (restored afterwards); its verdicts are `sh`.
//!
//! One model tick = 10 s.  The limiter level is exact (explicit time).  The filter's `RateLimiter`
//! reads `Instant::now()`: virtual time is passed with the `verif_age` hook, the microseconds a
//! behaviour really takes add to it and never reach a tick; a behaviour that took longer than half
//! a tick of real time is re-run (wall-clock gate, never observed).
use crate::util::{self, Out};
use discv5::enr::{CombinedKey, NodeId};
use discv5::socket::FilterConfig;
use discv5::verif::{
    ban_list_reset, ban_list_set, ban_list_snapshot, random_packet, whoareyou_packet, FilterFacade, FilterRef, LimiterFacade, LimiterVerdict, RecvFacade,
    RecvOutcome,
};
use discv5::{ConfigBuilder, Discv5, ListenConfig, NodeAddress, PermitBanList, RateLimiterBuilder};
use rand::{rngs::StdRng, Rng, SeedableRng};
use serde_json::{json, Value};
use std::collections::HashMap;
use std::net::{IpAddr, Ipv4Addr, SocketAddr};
use std::time::{Duration, Instant};

const TICK_MS: u64 = 10_000;
const TICK_NS: u64 = TICK_MS * 1_000_000;

fn ticks(d: i64) -> Duration {
    Duration::from_millis(d as u64 * TICK_MS)
}
fn ip(i: i64) -> IpAddr {
    IpAddr::V4(Ipv4Addr::new(10, 0, (i / 256) as u8, (i % 256) as u8))
}
fn ip_of(a: &IpAddr) -> i64 {
    match a {
        IpAddr::V4(v) => {
            let o = v.octets();
            o[2] as i64 * 256 + o[3] as i64
        }
        _ => -1,
    }
}
fn node(n: i64) -> NodeId {
    let mut raw = [0u8; 32];
    raw[24..].copy_from_slice(&(n as u64).to_be_bytes());
    NodeId::new(&raw)
}
fn node_of(n: &NodeId) -> i64 {
    let raw = n.raw();
    let mut b = [0u8; 8];
    b.copy_from_slice(&raw[24..]);
    u64::from_be_bytes(b) as i64
}
fn sorted(mut v: Vec<Value>) -> Value {
    v.sort_by_key(|x| x.to_string());
    Value::Array(v)
}

// ------------------------------------------------------------------------------------ limiter
struct LimSut {
    l: LimiterFacade,
    shadow: LimiterFacade,
    now: i64,
}

fn verdict(v: LimiterVerdict) -> Value {
    match v {
        LimiterVerdict::Ok => json!(["Ok", 0]),
        LimiterVerdict::TooLarge => json!(["TooLarge", 0]),
        LimiterVerdict::TooSoon(d) => json!(["TooSoon", d.as_nanos() as u64 / TICK_NS]),
    }
}

impl LimSut {
    fn new(op: &Value) -> Result<LimSut, String> {
        let (b, p) = (util::i(op, "b") as u64, util::i(op, "p"));
        Ok(LimSut { l: LimiterFacade::new(b, ticks(p))?, shadow: LimiterFacade::new(b, ticks(p))?, now: 0 })
    }
    fn apply(&mut self, op: &Value) -> (Value, Value) {
        match util::s(op, "o") {
            "allows" => {
                let (k, n) = (util::i(op, "k") as u64, util::i(op, "n") as u64);
                let sh = verdict(self.shadow.allows(ticks(self.now), k, n));
                (verdict(self.l.allows(ticks(self.now), k, n)), sh)
            }
            "prune" => {
                self.l.prune(ticks(util::i(op, "lim")));
                (json!(["Ok", 0]), json!(["Ok", 0]))
            }
            "tick" => {
                self.now += util::i(op, "d");
                (json!(["Ok", 0]), json!(["Ok", 0]))
            }
            o => panic!("limiter: unknown op {o}"),
        }
    }
    fn state(&self) -> Value {
        Value::Array(self.l.tats().into_iter().map(|(k, t)| json!([k, t / TICK_NS])).collect())
    }
}

// ------------------------------------------------------------------------------------- filter
/// The filter directly (`sut = "filter"`) or inside the receive task's handler (`sut = "recv"`).
enum Backend {
    Direct(FilterFacade),
    Recv(RecvFacade),
}
impl Backend {
    fn filter(&mut self) -> FilterRef<'_> {
        match self {
            Backend::Direct(f) => f.filter(),
            Backend::Recv(r) => r.filter(),
        }
    }
}

struct FilterSut {
    f: Backend,
    shadow: Backend,
    local_id: NodeId,
    now: i64,
    t0: Instant,
    aged: Duration,
    /// virtual expiry (ticks) of the ban entries, computed when the entry (its instant) first appears
    exp: HashMap<String, (Option<Instant>, i64)>,
}

fn build_filter(op: &Value, local_id: &NodeId) -> Result<Backend, String> {
    let q = |b: &str, p: &str| (util::i(op, b) as u64, ticks(util::i(op, p)));
    let rate_limiter = if util::b(op, "rl") {
        let (tb, tp) = q("totb", "totp");
        let mut bld = RateLimiterBuilder::new().total_n_every(tb, tp);
        let (ib, ipd) = q("ipb", "ipp");
        if ib > 0 {
            bld = bld.ip_n_every(ib, ipd);
        }
        let (nb, np) = q("nodeb", "nodep");
        if nb > 0 {
            bld = bld.node_n_every(nb, np);
        }
        Some(bld.build()?)
    } else {
        None
    };
    let opt = |k: &str| match util::i(op, k) {
        0 => None,
        n => Some(n as usize),
    };
    let config = FilterConfig {
        enabled: util::b(op, "enabled"),
        rate_limiter,
        max_nodes_per_ip: opt("maxNodes"),
        max_bans_per_ip: opt("maxBans"),
    };
    let ban_duration = match util::i(op, "banDur") {
        0 => None,
        d => Some(ticks(d)),
    };
    Ok(match util::s(op, "sut") {
        "recv" => Backend::Recv(RecvFacade::new(config, ban_duration, *local_id).map_err(|e| format!("loopback socket: {e}"))?),
        _ => Backend::Direct(FilterFacade::new(config, ban_duration)),
    })
}

fn run_pkt(b: &mut Backend, src_ip: i64, nd: i64) -> Value {
    let src = SocketAddr::new(ip(src_ip), 9000);
    let mut f = b.filter();
    let r = util::guarded(|| {
        if !f.initial_pass(&src) {
            ("drop", "na")
        } else if nd == 0 {
            ("pass", "na")
        } else if f.final_pass(&NodeAddress { socket_addr: src, node_id: node(nd) }) {
            ("pass", "pass")
        } else {
            ("pass", "drop")
        }
    });
    match r {
        Ok((a, b)) => json!([a, b]),
        Err(p) => json!(["panic", p]),
    }
}

/// `RecvHandler::handle_inbound` for one datagram; what reached the packet handler.
fn run_dgram(rt: &tokio::runtime::Runtime, b: &mut Backend, src_ip: i64, nd: i64, bytes: &[u8]) -> Value {
    let Backend::Recv(r) = b else { panic!("dgram needs sut = recv") };
    let src = SocketAddr::new(ip(src_ip), 9000);
    match util::guarded(|| rt.block_on(r.inbound(src, bytes))) {
        Ok(RecvOutcome::Dropped) => json!(["drop", "ok"]),
        Ok(RecvOutcome::Unrecognized) => json!(["unrecognized", "ok"]),
        Ok(RecvOutcome::Inbound(id)) if id.map(|n| node_of(&n)).unwrap_or(0) == nd => json!(["inbound", "ok"]),
        Ok(RecvOutcome::Inbound(_)) => json!(["inbound-other-id", "ok"]),
        Err(p) => json!(["panic", p]),
    }
}

impl FilterSut {
    fn new(op: &Value, local_id: NodeId) -> Result<FilterSut, String> {
        ban_list_reset();
        let t0 = Instant::now();
        Ok(FilterSut { f: build_filter(op, &local_id)?, shadow: build_filter(op, &local_id)?, local_id, now: 0, t0, aged: Duration::ZERO, exp: HashMap::new() })
    }

    /// The IPs a response is expected from (read from the map shared with the receive handler).
    fn expected(&self) -> Value {
        match &self.f {
            Backend::Recv(r) => sorted(r.expected_sources().iter().map(|a| json!(ip_of(&a.ip()))).collect()),
            Backend::Direct(_) => json!([]),
        }
    }

    fn list(&mut self, l: &PermitBanList) -> Value {
        let mut seen = Vec::new();
        let mut bans = |this: &mut FilterSut, key: String, id: i64, t: &Option<Instant>| -> Value {
            seen.push(key.clone());
            let until = match this.exp.get(&key) {
                Some((inst, u)) if inst == t => *u,
                _ => {
                    let u = match t {
                        None => 0,
                        Some(t) => ((t.saturating_duration_since(this.t0) + this.aged).as_nanos() as u64 / TICK_NS) as i64,
                    };
                    this.exp.insert(key, (*t, u));
                    u
                }
            };
            json!([id, t.is_none(), until])
        };
        let bi: Vec<Value> = l.ban_ips.iter().map(|(a, t)| bans(self, format!("i{a}"), ip_of(a), t)).collect();
        let bn: Vec<Value> = l.ban_nodes.iter().map(|(n, t)| bans(self, format!("n{n}"), node_of(n), t)).collect();
        self.exp.retain(|k, _| seen.contains(k));
        json!({
            "pi": sorted(l.permit_ips.iter().map(|a| json!(ip_of(a))).collect()),
            "bi": sorted(bi),
            "pn": sorted(l.permit_nodes.iter().map(|n| json!(node_of(n))).collect()),
            "bn": sorted(bn),
        })
    }

    fn apply(&mut self, cx: &Ctx, op: &Value) -> (Value, Value) {
        let d5 = &cx.d5;
        let ok = json!(["ok", "ok"]);
        let dur = |op: &Value| match util::i(op, "d") {
            0 => None,
            d => Some(ticks(d)),
        };
        match util::s(op, "o") {
            "pkt" => {
                let (i, n) = (util::i(op, "ip"), util::i(op, "node"));
                let pre = ban_list_snapshot();
                let sh = run_pkt(&mut self.shadow, i, n);
                ban_list_set(pre);
                return (run_pkt(&mut self.f, i, n), sh);
            }
            "dgram" => {
                let (i, n) = (util::i(op, "ip"), util::i(op, "node"));
                let bytes = match util::s(op, "kind") {
                    "msg" => random_packet(&node(n)).encode(&self.local_id),
                    // a handshake datagram also names its sender (signature / key / message are not looked at by the receive task)
                    "hs" => {
                        let mut pv = random_packet(&node(n));
                        pv.kind = discv5::packet::PacketKind::Handshake { src_id: node(n), id_nonce_sig: vec![7; 64], ephem_pubkey: vec![2; 33], enr_record: None };
                        pv.encode(&self.local_id)
                    }
                    "way" => whoareyou_packet(rand::random(), rand::random(), 1).encode(&self.local_id),
                    _ => vec![0xab; 30],     // shorter than any packet: does not decode
                };
                let pre = ban_list_snapshot();
                let sh = run_dgram(&cx.rt, &mut self.shadow, i, n, &bytes);
                ban_list_set(pre);
                return (run_dgram(&cx.rt, &mut self.f, i, n, &bytes), sh);
            }
            "expect" | "unexpect" => {
                let src = SocketAddr::new(ip(util::i(op, "ip")), 9000);
                for b in [&self.f, &self.shadow] {
                    if let Backend::Recv(r) = b {
                        r.expect(src, if util::s(op, "o") == "expect" { 1 } else { 0 });
                    }
                }
            }
            "prune" => self.f.filter().prune_limiter(),
            "tick" => {
                let d = util::i(op, "d");
                self.now += d;
                self.aged += ticks(d);
                self.f.filter().age(ticks(d));
                self.shadow.filter().age(ticks(d));
            }
            "ban_ip" => d5.ban_ip(ip(util::i(op, "ip")), dur(op)),
            "unban_ip" => d5.ban_ip_remove(&ip(util::i(op, "ip"))),
            "permit_ip" => d5.permit_ip(ip(util::i(op, "ip"))),
            "unpermit_ip" => d5.permit_ip_remove(&ip(util::i(op, "ip"))),
            "ban_node" => d5.ban_node(&node(util::i(op, "node")), dur(op)),
            "unban_node" => d5.ban_node_remove(&node(util::i(op, "node"))),
            "permit_node" => d5.permit_node(&node(util::i(op, "node"))),
            "unpermit_node" => d5.permit_node_remove(&node(util::i(op, "node"))),
            o => panic!("filter: unknown op {o}"),
        }
        (ok.clone(), ok)
    }

    fn state(&mut self) -> Value {
        let (mut tot, mut ipl, mut ndl, mut clock) = (vec![], vec![], vec![], self.now);
        if let Some(s) = self.f.filter().limiter_state() {
            clock = (s.elapsed.as_nanos() as u64 / TICK_NS) as i64;
            tot = s.total.iter().map(|t| json!([0, t / TICK_NS])).collect();
            ipl = s.ip.unwrap_or_default().iter().map(|(a, t)| json!([ip_of(a), t / TICK_NS])).collect();
            ndl = s.node.unwrap_or_default().iter().map(|(n, t)| json!([node_of(n), t / TICK_NS])).collect();
        }
        let (known, bcnt) = self.f.filter().tracking();
        json!({
            "clock": clock,
            "tot": sorted(tot), "ip": sorted(ipl), "node": sorted(ndl),
            "known": sorted(known.iter().map(|(a, ids)| {
                let mut v: Vec<i64> = ids.iter().map(node_of).collect();
                v.sort();
                json!([ip_of(a), v])
            }).collect()),
            "bcnt": sorted(bcnt.iter().map(|(a, n)| json!([ip_of(a), n])).collect()),
        })
    }
}

// ------------------------------------------------------------------------------------- driver
/// The local node (its `Discv5` handle is the public ban / permit API) and the runtime the receive handler's socket lives in.
struct Ctx {
    d5: Discv5,
    local_id: NodeId,
    rt: tokio::runtime::Runtime,
}

fn local_node() -> Result<Ctx, String> {
    let key = CombinedKey::generate_secp256k1();
    let enr = discv5::Enr::builder().ip4(Ipv4Addr::new(10, 0, 200, 1)).udp4(9000).build(&key).map_err(|e| format!("{e:?}"))?;
    let config = ConfigBuilder::new(ListenConfig::Ipv4 { ip: Ipv4Addr::new(10, 0, 200, 1), port: 9000 }).build();
    let local_id = enr.node_id();
    let rt = tokio::runtime::Builder::new_current_thread().enable_all().build().map_err(|e| e.to_string())?;
    Ok(Ctx { d5: Discv5::new(enr, key, config).map_err(|e| e.to_string())?, local_id, rt })
}

/// One behaviour; `Err` = it took too much real time to be conclusive (the caller re-runs it).
fn run_once(cx: &Ctx, ops: &[Value]) -> Result<Vec<Value>, String> {
    let started = Instant::now();
    let mut events = Vec::with_capacity(ops.len());
    let mut lim: Option<LimSut> = None;
    let mut fil: Option<FilterSut> = None;
    for op in ops {
        if util::s(op, "o") == "reset" {
            lim = None;
            fil = None;
            match util::s(op, "sut") {
                "limiter" => {
                    lim = Some(LimSut::new(op).unwrap_or_else(|e| panic!("limiter reset {op}: {e}")));
                    events.push(json!({"op": op, "now": 0, "ret": ["Ok", 0], "sh": ["Ok", 0], "st": []}));
                }
                "filter" | "recv" => {
                    let _in_rt = cx.rt.enter();
                    let mut f = FilterSut::new(op, cx.local_id).unwrap_or_else(|e| panic!("filter reset {op}: {e}"));
                    let l = f.list(&ban_list_snapshot());
                    let st = f.state();
                    events.push(json!({"op": op, "now": 0, "ret": ["ok", "ok"], "sh": ["ok", "ok"], "pre": l, "post": l, "exp": [], "st": st}));
                    fil = Some(f);
                }
                s => panic!("filter: unknown sut {s}"),
            }
            continue;
        }
        if let Some(s) = lim.as_mut() {
            let (ret, sh) = match util::guarded(|| s.apply(op)) {
                Ok(r) => r,
                Err(p) => (json!(["panic", p]), json!(["Ok", 0])),
            };
            events.push(json!({"op": op, "now": s.now, "ret": ret, "sh": sh, "st": s.state()}));
        } else if let Some(s) = fil.as_mut() {
            let pre = s.list(&ban_list_snapshot());
            let exp = s.expected();
            let (ret, sh) = s.apply(cx, op);
            let post = s.list(&ban_list_snapshot());
            let st = s.state();
            events.push(json!({"op": op, "now": s.now, "ret": ret, "sh": sh, "pre": pre, "post": post, "exp": exp, "st": st}));
        } else {
            panic!("behaviour must start with reset");
        }
    }
    if started.elapsed() > Duration::from_millis(TICK_MS / 2) {
        return Err("behaviour took more than half a tick of real time".into());
    }
    Ok(events)
}

fn run(cx: &Ctx, ops: &[Value], out: &mut Out) -> Result<(), String> {
    for _ in 0..3 {
        if let Ok(events) = run_once(cx, ops) {
            for e in &events {
                out.emit(e);
            }
            return Ok(());
        }
    }
    Err("filter: a behaviour was inconclusive three times (machine too slow for the wall-clock gate)".into())
}

pub fn replay(behaviours: &[Vec<Value>], out: &mut Out) -> Result<(), String> {
    let cx = local_node()?;
    for b in behaviours {
        run(&cx, b, out)?;
    }
    ban_list_reset();
    Ok(())
}

/// Seeded random driver, limiter level: bursts up to 8, 4 keys, batches of 1..3 tokens, prune anywhere.
pub fn drive_limiter(seed: u64, n: usize, out: &mut Out) -> Result<(), String> {
    let cx = local_node()?;
    let mut rng = StdRng::seed_from_u64(seed);
    let mut left = n;
    while left > 0 {
        let len = left.min(40);
        left -= len;
        let b = rng.gen_range(1..=8);
        let p = b * rng.gen_range(1..=4);
        let nkeys = rng.gen_range(1..=4);
        let mut ops = vec![json!({"o": "reset", "sut": "limiter", "b": b, "p": p})];
        let mut now = 0;
        let dense = rng.gen_bool(0.5);
        for _ in 0..len {
            ops.push(match rng.gen_range(0..10) {
                0..=5 => json!({"o": "allows", "k": rng.gen_range(1..=nkeys), "n": if rng.gen_bool(0.8) { 1 } else { rng.gen_range(2..=3) }}),
                6 => json!({"o": "prune", "lim": if rng.gen_bool(0.7) { now } else { rng.gen_range(0..=now) }}),
                _ => {
                    let d = if dense { 1 } else { rng.gen_range(1..=3) };
                    now += d;
                    json!({"o": "tick", "d": d})
                }
            });
        }
        run(&cx, &ops, out)?;
    }
    Ok(())
}

/// Seeded random driver, filter level: up to 4 IPs and 5 node ids, random quotas, ban / permit operations, prune anywhere.
pub fn drive_filter(seed: u64, n: usize, out: &mut Out) -> Result<(), String> {
    drive_packets(seed, n, out, false)
}

/// The same at the receive-task level: datagrams of every kind through `handle_inbound`, sources with expected responses.
pub fn drive_recv(seed: u64, n: usize, out: &mut Out) -> Result<(), String> {
    drive_packets(seed, n, out, true)
}

fn drive_packets(seed: u64, n: usize, out: &mut Out, recv: bool) -> Result<(), String> {
    let cx = local_node()?;
    let mut rng = StdRng::seed_from_u64(seed);
    let mut left = n;
    while left > 0 {
        let len = left.min(45);
        left -= len;
        let quota = |rng: &mut StdRng, optional: bool, lo: i64| -> (i64, i64) {
            if optional && rng.gen_bool(0.2) {
                (0, 0)
            } else {
                let b = rng.gen_range(lo..=lo + 3);
                (b, b * rng.gen_range(1..=3))
            }
        };
        let (ipb, ipp) = quota(&mut rng, true, 1);
        let (nodeb, nodep) = quota(&mut rng, true, 1);
        let (totb, totp) = quota(&mut rng, false, 2);
        let features = rng.gen_bool(0.15);
        let mut ops = vec![json!({"o": "reset", "sut": if recv { "recv" } else { "filter" }, "enabled": true, "rl": rng.gen_bool(0.95),
            "ipb": ipb, "ipp": ipp, "nodeb": nodeb, "nodep": nodep, "totb": totb, "totp": totp,
            "maxNodes": if features { rng.gen_range(0..=3) } else { 0 }, "maxBans": if features { rng.gen_range(0..=2) } else { 0 },
            "banDur": rng.gen_range(0..=4)})];
        let nips = rng.gen_range(1..=4);
        let nnodes = rng.gen_range(1..=5);
        let lists = rng.gen_bool(0.6);
        for _ in 0..len {
            let i = rng.gen_range(1..=nips);
            let nd = rng.gen_range(1..=nnodes);
            ops.push(match rng.gen_range(0..20) {
                0..=10 if recv => match rng.gen_range(0..10) {
                    0 => json!({"o": "dgram", "ip": i, "kind": "way", "node": 0}),
                    1 => json!({"o": "dgram", "ip": i, "kind": "junk", "node": 0}),
                    2 | 3 | 4 => json!({"o": "dgram", "ip": i, "kind": "hs", "node": nd}),
                    _ => json!({"o": "dgram", "ip": i, "kind": "msg", "node": nd}),
                },
                0..=10 => json!({"o": "pkt", "ip": i, "node": if rng.gen_bool(0.15) { 0 } else { nd }}),
                17 if recv => json!({"o": if rng.gen_bool(0.6) { "expect" } else { "unexpect" }, "ip": i}),
                11..=12 => json!({"o": "prune"}),
                13..=16 => json!({"o": "tick", "d": if rng.gen_bool(0.8) { 1 } else { rng.gen_range(2..=4) }}),
                _ if !lists => json!({"o": "tick", "d": 1}),
                _ => match rng.gen_range(0..8) {
                    0 => json!({"o": "ban_ip", "ip": i, "d": rng.gen_range(0..=3)}),
                    1 => json!({"o": "unban_ip", "ip": i}),
                    2 => json!({"o": "permit_ip", "ip": i}),
                    3 => json!({"o": "unpermit_ip", "ip": i}),
                    4 => json!({"o": "ban_node", "node": nd, "d": rng.gen_range(0..=3)}),
                    5 => json!({"o": "unban_node", "node": nd}),
                    6 => json!({"o": "permit_node", "node": nd}),
                    _ => json!({"o": "unpermit_node", "node": nd}),
                },
            });
        }
        run(&cx, &ops, out)?;
    }
    ban_list_reset();
    Ok(())
}
