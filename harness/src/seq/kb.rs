//! KBucketsTable (src/kbucket.rs, bucket.rs, entry.rs, filter.rs) — binding for spec/KBuckets.tla.
//!
//! Model keys are integers 1..2^bits-1 (XOR distance to the local id). Bit j of a model key is
//! placed at bit phi[j] of (id XOR local): the XOR order is preserved and model bucket j is real
//! bucket phi[j]. Values are real ENRs (one signing key, distinct port per model key, ip4 in
//! 10.0.<sub>.x, seq = ver); the table does not tie values to keys.
//! One model tick = 1000 ms (hook `KBucketsTable::verif_age`); pending timeout pt ticks =
//! (pt-1)*1000+500 ms (0 for pt = 0).
use crate::util::{self, Out};
use discv5::enr::{CombinedKey, Enr, NodeId};
use discv5::kbucket::{
    ConnectionState, Entry, InsertResult, KBucketsTable, NodeStatus, UpdateResult,
};
use discv5::{ConnectionDirection, Key};
use rand::{rngs::StdRng, seq::SliceRandom, Rng, SeedableRng};
use serde_json::{json, Value};
use std::collections::HashMap;
use std::time::{Duration, Instant};

type E = Enr<CombinedKey>;
const TICK_MS: u64 = 1000;

struct Sut {
    t: KBucketsTable<NodeId, E>,
    local: [u8; 32],
    phi: Vec<usize>,
    bits: usize,
    signer: CombinedKey,
    enrs: HashMap<(i64, String, i64), E>,
    back: HashMap<Vec<u8>, (i64, String, i64)>,
}

fn st_of(s: &str) -> ConnectionState {
    if s == "C" {
        ConnectionState::Connected
    } else {
        ConnectionState::Disconnected
    }
}
fn dr_of(s: &str) -> ConnectionDirection {
    if s == "I" {
        ConnectionDirection::Incoming
    } else {
        ConnectionDirection::Outgoing
    }
}
fn st_s(s: ConnectionState) -> &'static str {
    match s {
        ConnectionState::Connected => "C",
        ConnectionState::Disconnected => "D",
    }
}
fn dr_s(d: ConnectionDirection) -> &'static str {
    match d {
        ConnectionDirection::Incoming => "I",
        ConnectionDirection::Outgoing => "O",
    }
}

impl Sut {
    fn new(op: &Value) -> Sut {
        let bits = util::i(op, "bits") as usize;
        let phi: Vec<usize> = match op.get("phi") {
            Some(Value::Array(a)) => a.iter().map(|x| x.as_u64().unwrap() as usize).collect(),
            _ => (0..bits).collect(),
        };
        assert!(phi.len() == bits && phi.windows(2).all(|w| w[0] < w[1]) && *phi.last().unwrap() < 256);
        assert!(util::i(op, "K") == 16, "the real table has K = 16");
        let (bl, tl) = (util::i(op, "bl"), util::i(op, "tl"));
        assert!((bl == 0 || bl == 2) && (tl == 0 || tl == 10), "real filter constants are 2 / 10");
        let pt = util::i(op, "pt") as u64;
        let pending_timeout = if pt == 0 { Duration::ZERO } else { Duration::from_millis((pt - 1) * TICK_MS + TICK_MS / 2) };
        let (tf, bf) = discv5::verif::ip_filters();
        let mut local = [0u8; 32];
        // a fixed, irregular local id (its value is irrelevant to the XOR geometry)
        for (i, b) in local.iter_mut().enumerate() {
            *b = (i as u8).wrapping_mul(37).wrapping_add(0x5a);
        }
        let seed = op.get("idseed").and_then(|x| x.as_u64()).unwrap_or(0);
        if seed != 0 {
            let mut r = StdRng::seed_from_u64(seed);
            r.fill(&mut local);
        }
        let t = KBucketsTable::new(
            Key::from(NodeId::new(&local)),
            pending_timeout,
            util::i(op, "maxin") as usize,
            if tl > 0 { Some(tf) } else { None },
            if bl > 0 { Some(bf) } else { None },
        );
        let mut kb = [7u8; 32];
        kb[0] = 1;
        Sut { t, local, phi, bits, signer: CombinedKey::secp256k1_from_bytes(&mut kb).unwrap(), enrs: HashMap::new(), back: HashMap::new() }
    }

    fn id(&self, k: i64) -> NodeId {
        let mut raw = self.local;
        for j in 0..self.bits {
            if (k >> j) & 1 == 1 {
                let p = self.phi[j];
                raw[31 - p / 8] ^= 1 << (p % 8);
            }
        }
        NodeId::new(&raw)
    }
    fn key(&self, k: i64) -> Key<NodeId> {
        Key::from(self.id(k))
    }
    fn model_key(&self, id: &NodeId) -> i64 {
        let raw = id.raw();
        let mut k = 0i64;
        let mut rest = [0u8; 32];
        for i in 0..32 {
            rest[i] = raw[i] ^ self.local[i];
        }
        for j in 0..self.bits {
            let p = self.phi[j];
            if rest[31 - p / 8] >> (p % 8) & 1 == 1 {
                k |= 1 << j;
                rest[31 - p / 8] ^= 1 << (p % 8);
            }
        }
        if rest.iter().any(|b| *b != 0) {
            return -1;
        }
        k
    }
    fn enr(&mut self, k: i64, sub: &str, ver: i64) -> E {
        let key = (k, sub.to_string(), ver);
        if let Some(e) = self.enrs.get(&key) {
            return e.clone();
        }
        let mut b = E::builder();
        b.seq(ver as u64);
        b.udp4(9000 + (k % 50000) as u16);
        match sub {
            "n" => {
                b.ip6(std::net::Ipv6Addr::new(0x2001, 0xdb8, 0, 0, 0, 0, (k >> 16) as u16, k as u16));
                b.udp6(9000 + (k % 50000) as u16);
            }
            s => {
                let n: u8 = s[1..].parse().expect("subnet token s<N>");
                b.ip4(std::net::Ipv4Addr::new(10, 0, n, ((k * 37) % 250) as u8 + 1)); // hosts spread over the whole /24 (both /25 halves)
            }
        }
        let e = b.build(&self.signer).unwrap();
        self.enrs.insert(key.clone(), e.clone());
        self.back.insert(alloy_rlp::encode(&e), key);
        e
    }
    fn val_token(&self, e: &E) -> Value {
        match self.back.get(&alloy_rlp::encode(e)) {
            Some((k, sub, ver)) => json!([k, sub, ver]),
            None => json!([-1, "?", -1]),
        }
    }

    /// The projected table: [[bucket, [[key, val, st, dr]..], num_connected, pend]] for every
    /// bucket of phi (model numbering); pend = [] or [key, val, st, dr, ticks_until_ready].
    /// Nodes found in a real bucket outside phi are reported under bucket -1.
    fn state(&self) -> Value {
        let now = Instant::now();
        let mut out = vec![];
        let mut stray = vec![];
        for (ri, b) in self.t.buckets_iter().enumerate() {
            let mj = self.phi.iter().position(|p| *p == ri);
            let nodes: Vec<Value> = b
                .iter()
                .map(|n| json!([self.model_key(n.key.preimage()), self.val_token(&n.value), st_s(n.status.state), dr_s(n.status.direction)]))
                .collect();
            let pend = match b.pending() {
                Some(p) => {
                    let rem = p.verif_ready_at().saturating_duration_since(now).as_millis() as u64;
                    json!([self.model_key(p.verif_key().preimage()), self.val_token(p.value()), st_s(p.status().state), dr_s(p.status().direction), rem.div_ceil(TICK_MS)])
                }
                None => json!([]),
            };
            match mj {
                Some(j) => out.push(json!([j, nodes, b.num_connected(), pend])),
                None => {
                    if !nodes.is_empty() || b.pending().is_some() {
                        stray.push(json!([-1, nodes, b.num_connected(), pend]));
                    }
                }
            }
        }
        out.extend(stray);
        Value::Array(out)
    }

    fn status(op: &Value) -> NodeStatus {
        NodeStatus { state: st_of(util::s(op, "st")), direction: dr_of(util::s(op, "dr")) }
    }

    fn apply(&mut self, op: &Value) -> Value {
        let o = util::s(op, "o");
        let k = op.get("k").and_then(|x| x.as_i64()).unwrap_or(0);
        match o {
            "iou" => {
                let e = self.enr(k, util::s(op, "sub"), util::i(op, "ver"));
                let r = self.t.insert_or_update(&self.key(k), e, Self::status(op));
                json!(match r {
                    InsertResult::Inserted => "Inserted".to_string(),
                    InsertResult::Pending { .. } => "Pending".to_string(),
                    InsertResult::StatusUpdated { promoted_to_connected } => format!("StatusUpdated({promoted_to_connected})"),
                    InsertResult::ValueUpdated => "ValueUpdated".to_string(),
                    InsertResult::Updated { promoted_to_connected } => format!("Updated({promoted_to_connected})"),
                    InsertResult::UpdatedPending => "UpdatedPending".to_string(),
                    InsertResult::Failed(r) => format!("Failed({r:?})"),
                })
            }
            "un" => {
                let e = self.enr(k, util::s(op, "sub"), util::i(op, "ver"));
                let st = match util::s(op, "st") {
                    "-" => None,
                    s => Some(st_of(s)),
                };
                json!(upd(self.t.update_node(&self.key(k), e, st)))
            }
            "uns" => {
                let dr = match util::s(op, "dr") {
                    "-" => None,
                    d => Some(dr_of(d)),
                };
                json!(upd(self.t.update_node_status(&self.key(k), st_of(util::s(op, "st")), dr)))
            }
            "rm" => json!(if self.t.remove(&self.key(k)) { "true" } else { "false" }),
            "ent_ins" => {
                let e = self.enr(k, util::s(op, "sub"), util::i(op, "ver"));
                let key = self.key(k);
                let r = match self.t.entry(&key) {
                    Entry::Absent(a) => format!("{:?}", a.insert(e, Self::status(op))).split([' ', '{', '(']).next().unwrap().to_string(),
                    Entry::Present(..) => "Present".into(),
                    Entry::Pending(..) => "Pending".into(),
                    Entry::SelfEntry => "SelfEntry".into(),
                };
                json!(r)
            }
            "ent_upd" => {
                let key = self.key(k);
                let r: String = match self.t.entry(&key) {
                    Entry::Present(p, _) => {
                        let dr = match util::s(op, "dr") {
                            "-" => None,
                            d => Some(dr_of(d)),
                        };
                        match p.update(st_of(util::s(op, "st")), dr) {
                            Ok(_) => "Ok".into(),
                            Err(r) => format!("Failed({r:?})"),
                        }
                    }
                    Entry::Pending(p, cur) => {
                        let dr = match util::s(op, "dr") {
                            "-" => cur.direction,
                            d => dr_of(d),
                        };
                        let _ = p.update(NodeStatus { state: st_of(util::s(op, "st")), direction: dr });
                        "OkPending".into()
                    }
                    Entry::Absent(_) => "Absent".into(),
                    Entry::SelfEntry => "SelfEntry".into(),
                };
                json!(r)
            }
            "ent_rm" => {
                let key = self.key(k);
                let r = match self.t.entry(&key) {
                    Entry::Present(p, _) => {
                        p.remove();
                        "Present"
                    }
                    Entry::Pending(p, _) => {
                        p.remove();
                        "Pending"
                    }
                    Entry::Absent(_) => "Absent",
                    Entry::SelfEntry => "SelfEntry",
                };
                json!(r)
            }
            "iter" => {
                let ks: Vec<i64> = self.t.iter().map(|e| *e.node.key.preimage()).collect::<Vec<_>>().iter().map(|id| self.model_key(id)).collect();
                json!(ks)
            }
            "closest" => {
                let t = self.key(util::i(op, "t"));
                // closest_keys and closest_values must agree; report keys, flag disagreement
                let a: Vec<NodeId> = self.t.closest_keys(&t).map(|k| *k.preimage()).collect();
                let b: Vec<NodeId> = self.t.closest_values(&t).map(|v| *v.key.preimage()).collect();
                if a != b {
                    return json!([-1]); // closest_keys and closest_values disagree
                }
                json!(a.iter().map(|id| self.model_key(id)).collect::<Vec<_>>())
            }
            "closest_pred" => {
                let t = self.key(util::i(op, "t"));
                let a: Vec<(NodeId, bool)> = self.t.closest_values_predicate(&t, |e: &E| e.ip4().is_some()).map(|v| (*v.key.preimage(), v.predicate_match)).collect();
                json!(a.iter().map(|(id, m)| json!([self.model_key(id), m])).collect::<Vec<_>>())
            }
            "nbd" => {
                let ds: Vec<u64> = op["ds"]
                    .as_array()
                    .unwrap()
                    .iter()
                    .map(|d| {
                        let d = d.as_i64().unwrap();
                        if d >= 1 && d as usize <= self.bits {
                            self.phi[d as usize - 1] as u64 + 1
                        } else if d <= 0 {
                            0
                        } else {
                            256 + (d as u64 - self.bits as u64)
                        }
                    })
                    .collect();
                let r: Vec<NodeId> = self.t.nodes_by_distances(&ds, util::i(op, "max") as usize).iter().map(|e| *e.node.key.preimage()).collect();
                json!(r.iter().map(|id| self.model_key(id)).collect::<Vec<_>>())
            }
            "tick" => {
                self.t.verif_age(Duration::from_millis(util::i(op, "d") as u64 * TICK_MS));
                json!("ok")
            }
            o => panic!("kb: unknown op {o}"),
        }
    }
}

fn upd(r: UpdateResult) -> String {
    match r {
        UpdateResult::Updated => "Updated".into(),
        UpdateResult::UpdatedAndPromoted => "UpdatedAndPromoted".into(),
        UpdateResult::UpdatedPending => "UpdatedPending".into(),
        UpdateResult::Failed(r) => format!("Failed({r:?})"),
        UpdateResult::NotModified => "NotModified".into(),
    }
}

fn run(ops: &[Value], out: &mut Out) {
    let mut sut: Option<Sut> = None;
    for op in ops {
        if util::s(op, "o") == "reset" {
            let s = Sut::new(op);
            let st = s.state();
            sut = Some(s);
            out.emit(&json!({"op": op, "ret": {"v": "ok"}, "st": st}));
            continue;
        }
        let s = sut.as_mut().expect("behaviour must start with reset");
        let ret = match util::guarded(|| s.apply(op)) {
            Ok(r) => json!({"v": r}),
            Err(p) => json!({"v": "panic", "panic": p}),
        };
        let st = s.state();
        out.emit(&json!({"op": op, "ret": ret, "st": st}));
    }
}

pub fn replay(behaviours: &[Vec<Value>], out: &mut Out) -> Result<(), String> {
    for b in behaviours {
        // behaviours generated by TLC carry no phi: choose one deterministically from the content
        let mut b = b.clone();
        if b[0].get("phi").is_none() {
            let bits = util::i(&b[0], "bits") as usize;
            let h = b.len() * 7 + b.iter().map(|o| o.get("k").and_then(|x| x.as_u64()).unwrap_or(1) as usize).sum::<usize>();
            b[0]["phi"] = json!(phi_for(bits, h as u64));
        }
        run(&b, out);
    }
    Ok(())
}

/// A strictly increasing placement of `bits` model buckets over the 256 real buckets; always
/// keeps real buckets 0 and 255 reachable over the seeds, low buckets dense.
pub fn phi_for(bits: usize, seed: u64) -> Vec<usize> {
    let mut r = StdRng::seed_from_u64(seed ^ 0x9e3779b97f4a7c15);
    let low = r.gen_range(0..=3usize.min(bits)); // how many of the lowest real buckets are used as-is
    let mut v: Vec<usize> = (0..low).collect();
    let mut pool: Vec<usize> = (low.max(1)..256).collect();
    if low == 0 && r.gen_bool(0.5) {
        pool.insert(0, 0);
    }
    pool.shuffle(&mut r);
    let mut rest: Vec<usize> = pool.into_iter().filter(|x| *x >= low).take(bits - low).collect();
    if r.gen_bool(0.5) && !rest.is_empty() && !rest.contains(&255) {
        rest[0] = 255;
    }
    rest.sort();
    rest.dedup();
    v.extend(rest);
    while v.len() < bits {
        let c = r.gen_range(low..256);
        if !v.contains(&c) {
            v.push(c);
        }
        v.sort();
    }
    v
}

/// Seeded random driver on the real-size table: K = 16, keys spread over `bits` buckets with one
/// crowded bucket so that full buckets, pending slots and the IP limits are exercised.
pub fn drive(seed: u64, n: usize, out: &mut Out) -> Result<(), String> {
    let mut rng = StdRng::seed_from_u64(seed);
    let mut left = n;
    let mut round = 0u64;
    while left > 0 {
        round += 1;
        let len = left.min(rng.gen_range(120..260));
        left -= len;
        let bits = rng.gen_range(5..=7usize);
        let ip = rng.gen_bool(0.5);
        let maxin = *[0usize, 1, 3, 8, 16].choose(&mut rng).unwrap();
        let pt = rng.gen_range(0..=3);
        let phi = phi_for(bits, seed.wrapping_mul(1000).wrapping_add(round));
        let mut ops = vec![json!({"o": "reset", "K": 16, "maxin": maxin, "bl": if ip {2} else {0}, "tl": if ip {10} else {0},
                                  "pt": pt, "bits": bits, "phi": phi, "idseed": rng.gen_range(1..u32::MAX)})];
        let top = bits - 1;
        let crowded: Vec<i64> = ((1i64 << top)..(1i64 << (top + 1))).collect();
        let subs: Vec<&str> = if ip { vec!["s1", "s1", "s1", "s2", "n"] } else { vec!["n", "s1"] };
        let pick_key = |rng: &mut StdRng| -> i64 {
            if rng.gen_bool(0.7) {
                crowded[rng.gen_range(0..crowded.len().min(24))]
            } else {
                rng.gen_range(1..(1i64 << bits))
            }
        };
        for _ in 0..len {
            let k = pick_key(&mut rng);
            let st = if rng.gen_bool(0.55) { "C" } else { "D" };
            let dr = if rng.gen_bool(0.4) { "I" } else { "O" };
            let sub = *subs.choose(&mut rng).unwrap();
            let ver = rng.gen_range(1..=2);
            let x = rng.gen_range(0..100);
            ops.push(match x {
                0..=39 => json!({"o": "iou", "k": k, "sub": sub, "ver": ver, "st": st, "dr": dr}),
                40..=47 => json!({"o": "un", "k": k, "sub": sub, "ver": ver, "st": *["C", "D", "-", "-"].choose(&mut rng).unwrap()}),
                48..=59 => json!({"o": "uns", "k": k, "st": st, "dr": *["I", "O", "-"].choose(&mut rng).unwrap()}),
                60..=65 => json!({"o": "rm", "k": k}),
                66..=69 if !ip => json!({"o": "ent_ins", "k": k, "sub": sub, "ver": ver, "st": st, "dr": dr}),
                70..=73 => json!({"o": "ent_upd", "k": k, "st": st, "dr": dr}),
                74..=75 => json!({"o": "ent_rm", "k": k}),
                76..=78 => json!({"o": "iter"}),
                79..=84 => json!({"o": "closest", "t": rng.gen_range(0..(1i64 << bits))}),
                85..=87 => json!({"o": "closest_pred", "t": rng.gen_range(0..(1i64 << bits))}),
                88..=91 => {
                    let mut ds: Vec<i64> = (0..=(bits as i64 + 1)).collect();
                    ds.shuffle(&mut rng);
                    ds.truncate(rng.gen_range(1..=3));
                    json!({"o": "nbd", "ds": ds, "max": *[1, 3, 16, 40].choose(&mut rng).unwrap()})
                }
                _ => json!({"o": "tick", "d": rng.gen_range(1..=2)}),
            });
        }
        run(&ops, out);
    }
    Ok(())
}
