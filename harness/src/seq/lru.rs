//! LruTimeCache (src/lru_time_cache.rs) — binding for spec/LruTimeCache.tla.
//! One model tick = 700 ms of virtual time (hook `verif_age`); the real ttl is
//! `ttl * 700 + 350` ms so that the microseconds of real time a run takes never decide expiry.
use crate::util::{self, Out};
use discv5::verif::LruTimeCache;
use rand::{rngs::StdRng, Rng, SeedableRng};
use serde_json::{json, Value};
use std::time::Duration;

const TICK_MS: u64 = 700; // deliberately no whole number of seconds: expiry must be exact to the millisecond, not to the second

struct Sut {
    c: LruTimeCache<u32, u32>,
}

fn none() -> Value {
    json!({"hit": false, "v": 0, "keys": []})
}

impl Sut {
    fn new(cap: i64, ttl: i64) -> Sut {
        let cap = if cap <= 0 { None } else { Some(cap as usize) };
        Sut { c: LruTimeCache::new(Duration::from_millis(ttl as u64 * TICK_MS + TICK_MS / 2), cap) }
    }
    fn state(&self) -> Value {
        Value::Array(
            self.c
                .verif_entries()
                .into_iter()
                .map(|(k, age)| json!([k, (age.as_millis() as u64) / TICK_MS]))
                .collect(),
        )
    }
    fn apply(&mut self, op: &Value) -> Value {
        let some = |v: Option<u32>| match v {
            Some(v) => json!({"hit": true, "v": v, "keys": []}),
            None => none(),
        };
        match util::s(op, "o") {
            "insert" => {
                self.c.insert(util::i(op, "k") as u32, util::i(op, "v") as u32);
                none()
            }
            "get" => some(self.c.get(&(util::i(op, "k") as u32)).copied()),
            "get_mut" => some(self.c.get_mut(&(util::i(op, "k") as u32)).map(|v| *v)),
            "peek" => some(self.c.peek(&(util::i(op, "k") as u32)).copied()),
            "remove" => some(self.c.remove(&(util::i(op, "k") as u32))),
            "purge" => json!({"hit": false, "v": 0, "keys": self.c.remove_expired_values()}),
            "len" => json!({"hit": false, "v": self.c.len(), "keys": []}),
            "tick" => {
                self.c.verif_age(Duration::from_millis(util::i(op, "d") as u64 * TICK_MS));
                none()
            }
            o => panic!("lru: unknown op {o}"),
        }
    }
}

fn run(ops: &[Value], out: &mut Out) {
    let mut sut: Option<Sut> = None;
    for op in ops {
        if util::s(op, "o") == "reset" {
            sut = Some(Sut::new(util::i(op, "cap"), util::i(op, "ttl")));
            out.emit(&json!({"op": op, "ret": none(), "st": []}));
            continue;
        }
        let s = sut.as_mut().expect("behaviour must start with reset");
        let ret = match util::guarded(|| s.apply(op)) {
            Ok(r) => r,
            Err(p) => json!({"hit": false, "v": 0, "keys": [], "panic": p}),
        };
        let st = s.state();
        out.emit(&json!({"op": op, "ret": ret, "st": st}));
    }
}

pub fn replay(behaviours: &[Vec<Value>], out: &mut Out) -> Result<(), String> {
    for b in behaviours {
        run(b, out);
    }
    Ok(())
}

/// Seeded random driver at sizes the model checker does not reach (capacity up to 12, 20 keys).
pub fn drive(seed: u64, n: usize, out: &mut Out) -> Result<(), String> {
    let mut rng = StdRng::seed_from_u64(seed);
    let mut left = n;
    while left > 0 {
        let len = left.min(60);
        left -= len;
        let cap = rng.gen_range(1..=12);
        let ttl = rng.gen_range(1..=6);
        let nkeys = rng.gen_range(2..=20);
        let mut ops = vec![json!({"o": "reset", "cap": cap, "ttl": ttl})];
        for _ in 0..len {
            let k = rng.gen_range(1..=nkeys);
            ops.push(match rng.gen_range(0..12) {
                0..=3 => json!({"o": "insert", "k": k, "v": rng.gen_range(1..100)}),
                4 => json!({"o": "get", "k": k}),
                5..=6 => json!({"o": "get_mut", "k": k}),
                7 => json!({"o": "peek", "k": k}),
                8 => json!({"o": "remove", "k": k}),
                9 => json!({"o": "purge"}),
                10 => json!({"o": "len"}),
                _ => json!({"o": "tick", "d": rng.gen_range(1..=4)}),
            });
        }
        run(&ops, out);
    }
    Ok(())
}
