pub mod filter;
pub mod kb;
pub mod lru;
pub mod query;
