pub mod lru;
