pub mod kb;
pub mod lru;
pub mod query;
