pub mod kb;
pub mod lru;
