//! FindNodeQuery / PredicateQuery (src/query_pool/peers/{closest,predicate}.rs) through the
//! `QueryFacade` hook — binding for spec/Query.tla. A model peer p is the node id whose value,
//! read as a big-endian number, is p; the target is the all-zero id, so XOR distance = p.
//! One model tick = 1000 ms of explicit time passed to `next`.
use crate::util::{self, Out};
use discv5::enr::NodeId;
use discv5::verif::{QueryFacade, QueryNext};
use rand::{rngs::StdRng, seq::SliceRandom, Rng, SeedableRng};
use serde_json::{json, Value};
use std::time::Duration;

fn id(p: i64) -> NodeId {
    let mut raw = [0u8; 32];
    raw[24..].copy_from_slice(&(p as u64).to_be_bytes());
    NodeId::new(&raw)
}
fn peer_of(n: &NodeId) -> i64 {
    let raw = n.raw();
    let mut b = [0u8; 8];
    b.copy_from_slice(&raw[24..]);
    if raw[..24].iter().any(|x| *x != 0) {
        -1
    } else {
        u64::from_be_bytes(b) as i64
    }
}
fn pairs(v: &Value) -> Vec<(NodeId, bool)> {
    v.as_array().unwrap().iter().map(|x| (id(x[0].as_i64().unwrap()), x[1].as_bool().unwrap())).collect()
}

struct Sut {
    q: Option<QueryFacade>,
    now: u64,
    pto: u64,
}
impl Sut {
    fn state(&self) -> Value {
        match &self.q {
            Some(q) => {
                let (prog, nw, ps) = q.state();
                json!([prog, nw, ps.iter().map(|(n, s)| json!([peer_of(n), s])).collect::<Vec<_>>()])
            }
            None => json!(["Consumed", 0, []]),
        }
    }
    fn next(&mut self) -> Value {
        match self.q.as_mut().unwrap().next(Duration::from_millis(self.now * 1000)) {
            QueryNext::Contact(p) => json!(["contact", peer_of(&p)]),
            QueryNext::Waiting => json!(["Waiting", 0]),
            QueryNext::WaitingAtCapacity => json!(["WaitingAtCapacity", 0]),
            QueryNext::Finished => json!(["Finished", 0]),
        }
    }
    fn apply(&mut self, op: &Value) -> Value {
        match util::s(op, "o") {
            "next" => self.next(),
            "on_success" => {
                self.q.as_mut().unwrap().on_success(&id(util::i(op, "p")), pairs(&op["news"]));
                json!(["ok", 0])
            }
            "on_failure" => {
                self.q.as_mut().unwrap().on_failure(&id(util::i(op, "p")));
                json!(["ok", 0])
            }
            "tick" => {
                self.now += util::i(op, "d") as u64;
                json!(["ok", 0])
            }
            // runs the machine to its end: every newly contacted peer fails at once, time passes while it waits
            "drain" => {
                let mut contacts = vec![];
                let mut finished = false;
                for _ in 0..400 {   // beyond this the pool's query timeout would cut the lookup off
                    match self.next() {
                        v if v[0] == "contact" => {
                            let p = v[1].as_i64().unwrap();
                            contacts.push(p);
                            self.q.as_mut().unwrap().on_failure(&id(p));
                        }
                        v if v[0] == "Finished" => {
                            finished = true;
                            break;
                        }
                        _ => self.now += self.pto,
                    }
                }
                json!([if finished { "Finished" } else { "CutOff" }, contacts])
            }
            "result" => {
                let q = self.q.take().unwrap();
                json!(["result", q.into_result().iter().map(peer_of).collect::<Vec<_>>()])
            }
            o => panic!("query: unknown op {o}"),
        }
    }
}

fn run(ops: &[Value], out: &mut Out) {
    let mut sut: Option<Sut> = None;
    for op in ops {
        if util::s(op, "o") == "reset" {
            let pto = util::i(op, "pto") as u64;
            let q = QueryFacade::new(util::b(op, "pred"), util::i(op, "par") as usize, util::i(op, "nr") as usize, Duration::from_millis(pto * 1000), id(0), pairs(&op["cands"]));
            let s = Sut { q: Some(q), now: 0, pto };
            let st = s.state();
            sut = Some(s);
            out.emit(&json!({"op": op, "ret": ["ok", 0], "st": st, "now": 0}));
            continue;
        }
        let s = sut.as_mut().expect("behaviour must start with reset");
        if s.q.is_none() {
            continue;
        }
        let ret = match util::guarded(|| s.apply(op)) {
            Ok(r) => r,
            Err(p) => json!(["panic", p]),
        };
        out.emit(&json!({"op": op, "ret": ret, "st": s.state(), "now": s.now}));
    }
}

pub fn replay(behaviours: &[Vec<Value>], out: &mut Out) -> Result<(), String> {
    for (i, b) in behaviours.iter().enumerate() {
        let mut b = b.clone();
        // every third lookup is cut off where it stands (the pool's query timeout may strike at any time): its result is taken at once
        if i % 3 != 2 {
            b.push(json!({"o": "drain"}));
        }
        b.push(json!({"o": "result"}));
        run(&b, out);
    }
    Ok(())
}

/// Seeded random driver: up to 24 peers, parallelism 1..5, num_results 1..16, both variants.
pub fn drive(seed: u64, n: usize, out: &mut Out) -> Result<(), String> {
    let mut rng = StdRng::seed_from_u64(seed);
    let mut left = n;
    while left > 0 {
        let len = left.min(rng.gen_range(20..80));
        left -= len;
        let npeers = rng.gen_range(3..=24i64);
        let m = |p: i64| p % 3 != 0;
        let mut all: Vec<i64> = (1..=npeers).collect();
        all.shuffle(&mut rng);
        let ninit = rng.gen_range(0..=all.len().min(8));
        let cands: Vec<Value> = all[..ninit].iter().map(|p| json!([p, m(*p)])).collect();
        let pred = rng.gen_bool(0.4);
        let mut ops = vec![json!({"o": "reset", "pred": pred, "par": rng.gen_range(1..=5), "nr": *[1, 2, 3, 5, 16].choose(&mut rng).unwrap(), "pto": rng.gen_range(1..=3), "cands": cands})];
        let mut contacted: Vec<i64> = vec![];
        // the driver needs the contacts: run a shadow to learn them (cheap): execute ops one by one
        let mut shadow_out = Out::create("/dev/null");
        let mut tmp: Vec<Value> = vec![];
        for _ in 0..len {
            let x = rng.gen_range(0..100);
            let op = if x < 45 || contacted.is_empty() {
                json!({"o": "next"})
            } else if x < 75 {
                let p = *contacted.choose(&mut rng).unwrap();
                let k = rng.gen_range(0..=3);
                let news: Vec<Value> = (0..k).map(|_| { let q = rng.gen_range(1..=npeers); json!([q, if rng.gen_range(0..5) == 0 { !m(q) } else { m(q) }]) }).filter(|v| v[0] != p).collect();
                json!({"o": "on_success", "p": p, "news": news})
            } else if x < 85 {
                json!({"o": "on_failure", "p": *contacted.choose(&mut rng).unwrap()})
            } else {
                json!({"o": "tick", "d": rng.gen_range(1..=2)})
            };
            tmp.push(op.clone());
            ops.push(op);
            // learn contacts by replaying the prefix on a fresh object (sizes are tiny)
            if tmp.last().unwrap()["o"] == "next" {
                let mut s2: Option<Sut> = None;
                for o in &ops {
                    if o["o"] == "reset" {
                        let pto = util::i(o, "pto") as u64;
                        s2 = Some(Sut { q: Some(QueryFacade::new(util::b(o, "pred"), util::i(o, "par") as usize, util::i(o, "nr") as usize, Duration::from_millis(pto * 1000), id(0), pairs(&o["cands"]))), now: 0, pto });
                    } else {
                        // (a panic of the code under test is data: the recorded run reports it)
                        let r = match util::guarded(|| s2.as_mut().unwrap().apply(o)) {
                            Ok(r) => r,
                            Err(_) => break,
                        };
                        if std::ptr::eq(o, ops.last().unwrap()) && r[0] == "contact" {
                            contacted.push(r[1].as_i64().unwrap());
                        }
                    }
                }
            }
        }
        let _ = &mut shadow_out;
        if rng.gen_range(0..3) != 0 {
            ops.push(json!({"o": "drain"}));
        }
        ops.push(json!({"o": "result"}));
        run(&ops, out);
    }
    Ok(())
}
