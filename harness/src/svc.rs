//! Scripted-handler driver for the real `Service` (hook H4, `Discv5::verif_start_scripted`).
//!
//! The harness is the transport: it receives every `HandlerIn` the service emits (requests,
//! responses, who-are-you answers) and injects `HandlerOut` events (sessions, requests, responses,
//! failures). The service runs as a task on a paused tokio clock; `sleep(1 ms)` is the idle barrier.
//! Peers p1..p<N> have fixed keys; a record is named "<peer>:<seq>:<shape>" with shapes
//!   v4 (udp4 at the peer's canonical address)   v6   both   none   map (udp6 holding a v4-mapped address)
//!   mis (udp4 at a foreign address)   mark (v4 + tcp4 = 6666: rejected by the "nomark" table filter)   big (v4, padded to 300 bytes)
//! After every operation the harness records what the service emitted towards the handler, the
//! events on the event stream, the routing table, the ban list, the local record and finished calls.
use crate::util::{self, Out};
use discv5::enr::{CombinedKey, Enr as GEnr, EnrKey, NodeId};
use discv5::verif::{self, HandlerIn, HandlerOut, Message, PeerSession, Request, RequestBody, Response, ResponseBody};
use discv5::{ConfigBuilder, ConnectionDirection, Discv5, Event, IpMode, ListenConfig, NodeAddress, NodeContact, RequestId, TalkRequest};
use serde_json::{json, Map, Value};
use std::collections::HashMap;
use std::net::{IpAddr, Ipv4Addr, Ipv6Addr, SocketAddr, SocketAddrV4, SocketAddrV6};
use std::sync::{Arc, Mutex};
use std::time::Duration;
use tokio::sync::mpsc;

type Enr = GEnr<CombinedKey>;
pub const NPEERS: usize = 40;

fn mk_key(i: usize) -> CombinedKey {
    let mut b = [0u8; 32];
    b[0] = 3;
    b[1] = (i >> 8) as u8;
    b[2] = i as u8;
    b[31] = 0x77;
    CombinedKey::secp256k1_from_bytes(&mut b).unwrap()
}
fn v4_of(k: usize) -> SocketAddrV4 {
    SocketAddrV4::new(Ipv4Addr::new(10, 0, (k / 200 + 1) as u8, (k % 200 + 1) as u8), 9000 + k as u16)
}
fn v6_of(k: usize) -> SocketAddrV6 {
    SocketAddrV6::new(Ipv6Addr::new(0x2001, 0xdb8, 0, 0, 0, 0, 0, k as u16 + 1), 9100 + k as u16, 0, 0)
}
/// The canonical record "p<k>:1:v4" from the shared cache (created on first use).
fn pool_rec_v4(k: usize) -> Enr {
    let spec = format!("p{k}:1:v4");
    let mut g = REC_CACHE.lock().unwrap();
    let m = g.get_or_insert_with(HashMap::new);
    m.entry(spec).or_insert_with(|| { let mut b = Enr::builder(); b.seq(1); b.ip4(*v4_of(k).ip()); b.udp4(v4_of(k).port()); b.build(&mk_key(k)).unwrap() }).clone()
}
fn nomark_filter(e: &Enr) -> bool {
    e.tcp4() != Some(6666)
}

static REC_CACHE: Mutex<Option<HashMap<String, Enr>>> = Mutex::new(None);

struct Peer {
    key: CombinedKey,
    id: NodeId,
}

struct Pending {
    name: String,
    id: RequestId,
    to: NodeAddress,
    ds: Vec<u64>,
    fnode: bool,
    answered: bool,
}

pub struct World {
    d: Discv5,
    hin: mpsc::UnboundedReceiver<HandlerIn>,
    hout: mpsc::Sender<HandlerOut>,
    hexit: tokio::sync::oneshot::Receiver<()>,
    events: mpsc::Receiver<Event>,
    peers: Vec<Peer>,
    local_id: NodeId,
    recs: HashMap<String, Enr>,
    back: HashMap<Vec<u8>, String>,
    reqs: Vec<Pending>,
    talks: Vec<Option<TalkRequest>>,
    done: Arc<Mutex<Vec<Value>>>,
    ncalls: usize,
    sizer: Option<(PeerSession, NodeId)>,
    mode: String,
    exited: bool,
    seconds: HashMap<String, Box<World>>,
}

impl World {
    pub async fn new(cfg: &Value) -> World {
        verif::ban_list_reset();
        Self::new_as(cfg, None).await
    }

    /// `ident` = Some(k): the node is pool peer p<k> (used as a second, honest node answering requests).
    async fn new_as(cfg: &Value, ident: Option<usize>) -> World {
        let mode = cfg.get("mode").and_then(|x| x.as_str()).unwrap_or("ip4").to_string();
        let lkey = mk_key(ident.unwrap_or(1000));
        let l4 = match ident { Some(k) => v4_of(k), None => SocketAddrV4::new(Ipv4Addr::new(10, 0, 0, 100), 9000) };
        let l6 = SocketAddrV6::new(Ipv6Addr::new(0x2001, 0xdb8, 0, 0, 0, 0, 0, 0x100), 9006, 0, 0);
        let mut b = Enr::builder();
        let listen = match mode.as_str() {
            "ip6" => {
                b.ip6(*l6.ip());
                b.udp6(l6.port());
                ListenConfig::Ipv6 { ip: *l6.ip(), port: l6.port() }
            }
            "dual" => {
                b.ip4(*l4.ip());
                b.udp4(l4.port());
                b.ip6(*l6.ip());
                b.udp6(l6.port());
                ListenConfig::DualStack { ipv4: *l4.ip(), ipv4_port: l4.port(), ipv6: *l6.ip(), ipv6_port: l6.port() }
            }
            _ => {
                b.ip4(*l4.ip());
                b.udp4(l4.port());
                ListenConfig::Ipv4 { ip: *l4.ip(), port: l4.port() }
            }
        };
        let lenr = match ident {
            Some(k) => pool_rec_v4(k),
            None => b.build(&lkey).unwrap(),
        };
        let local_id = lenr.node_id();
        let mut cb = ConfigBuilder::new(listen);
        cb.request_timeout(Duration::from_secs(10))
            .query_timeout(Duration::from_secs(cfg.get("query_timeout").and_then(|x| x.as_u64()).unwrap_or(3600)))
            .query_peer_timeout(Duration::from_secs(cfg.get("peer_timeout").and_then(|x| x.as_u64()).unwrap_or(3600)))
            .query_parallelism(cfg.get("par").and_then(|x| x.as_u64()).unwrap_or(3) as usize)
            .ping_interval(Duration::from_secs(36000))
            .vote_duration(Duration::from_secs(cfg.get("vote_dur").and_then(|x| x.as_u64()).unwrap_or(3600)))
            .enr_peer_update_min(cfg.get("vote_min").and_then(|x| x.as_u64()).unwrap_or(2) as usize)
            .max_nodes_response(cfg.get("maxnodes").and_then(|x| x.as_u64()).unwrap_or(16) as usize)
            .auto_nat_listen_duration(None);
        if cfg.get("filter").and_then(|x| x.as_str()) == Some("nomark") {
            cb.table_filter(nomark_filter);
        }
        if cfg.get("ip_limit").and_then(|x| x.as_bool()) == Some(true) {
            cb.ip_limit();
        }
        let config = cb.build();
        let mut d = Discv5::new(lenr, clone_key(&lkey), config).unwrap();
        let (hin, hout, hexit) = d.verif_start_scripted().unwrap();
        let events = d.event_stream().await.unwrap();
        let peers = (1..=NPEERS).map(|i| { let key = mk_key(i); let id = NodeId::from(key.public()); Peer { key, id } }).collect();
        let mut w = World { d, hin, hout, hexit, events, peers, local_id, recs: HashMap::new(), back: HashMap::new(), reqs: vec![], talks: vec![], done: Arc::new(Mutex::new(vec![])), ncalls: 0, sizer: None, mode, exited: false, seconds: HashMap::new() };
        // a real session used only to measure the datagram a response is sent in
        let fake_way = verif::whoareyou_packet([7u8; 12], [9u8; 16], 0).authenticated_data();
        let remote = w.rec("p1:1:v4");
        let contact = NodeContact::try_from_enr(remote, IpMode::Ip4).ok().unwrap();
        if let Ok((_pv, sess)) = PeerSession::answer_challenge(&contact, &lkey, None, &local_id, &fake_way, b"x") {
            w.sizer = Some((sess, w.peers[0].id));
        }
        w
    }

    fn peer_idx(&self, name: &str) -> usize {
        name[1..].parse::<usize>().expect("peer name p<N>") - 1
    }
    fn id_name(&self, id: &NodeId) -> String {
        if *id == self.local_id {
            return "L".into();
        }
        self.peers.iter().position(|p| p.id == *id).map(|i| format!("p{}", i + 1)).unwrap_or_else(|| "?".into())
    }
    /// Builds (and caches) the record "<peer>:<seq>:<shape>".
    fn rec(&mut self, spec: &str) -> Enr {
        if let Some(e) = self.recs.get(spec) {
            return e.clone();
        }
        // records are shared by all nodes of a run (signatures are not deterministic, names are resolved by content)
        if let Some(e) = REC_CACHE.lock().unwrap().get_or_insert_with(HashMap::new).get(spec).cloned() {
            self.recs.insert(spec.to_string(), e.clone());
            self.back.insert(alloy_rlp::encode(&e), spec.to_string());
            return e;
        }
        let parts: Vec<&str> = spec.split(':').collect();
        let k = self.peer_idx(parts[0]) + 1;
        let seq: u64 = parts[1].parse().unwrap();
        let shape = parts.get(2).copied().unwrap_or("v4");
        let build = |pad: usize, key: &CombinedKey| -> Option<Enr> {
            let mut b = Enr::builder();
            b.seq(seq);
            match shape {
                "v4" | "mark" | "big" => {
                    b.ip4(*v4_of(k).ip());
                    b.udp4(v4_of(k).port());
                }
                "v6" => {
                    b.ip6(*v6_of(k).ip());
                    b.udp6(v6_of(k).port());
                }
                "both" => {
                    b.ip4(*v4_of(k).ip());
                    b.udp4(v4_of(k).port());
                    b.ip6(*v6_of(k).ip());
                    b.udp6(v6_of(k).port());
                }
                "map" => {
                    b.ip6(v4_of(k).ip().to_ipv6_mapped());
                    b.udp6(v4_of(k).port());
                }
                "mis" => {
                    b.ip4(Ipv4Addr::new(10, 9, 9, k as u8));
                    b.udp4(9999);
                }
                _ => {}
            }
            if shape == "mark" {
                b.tcp4(6666);
            }
            if pad > 0 {
                b.add_value("pad", &alloy_rlp::Bytes::from(vec![0xabu8; pad]));
            }
            b.build(key).ok()
        };
        let key = &self.peers[k - 1].key;
        let e = if shape == "big" {
            // pad up to the maximum record size of 300 bytes
            let mut best = build(0, key).unwrap();
            for pad in 60..260 {
                match build(pad, key) {
                    Some(e) if alloy_rlp::encode(&e).len() <= 300 => best = e,
                    _ => break,
                }
            }
            best
        } else {
            build(0, key).unwrap()
        };
        REC_CACHE.lock().unwrap().get_or_insert_with(HashMap::new).insert(spec.to_string(), e.clone());
        self.recs.insert(spec.to_string(), e.clone());
        self.back.insert(alloy_rlp::encode(&e), spec.to_string());
        e
    }
    fn rec_name(&self, e: &Enr) -> String {
        if e.node_id() == self.local_id {
            return format!("L:{}", e.seq());
        }
        self.back.get(&alloy_rlp::encode(e)).cloned().unwrap_or_else(|| format!("?{}:{}", self.id_name(&e.node_id()), e.seq()))
    }
    fn sock(&self, spec: &str, peer: usize) -> SocketAddr {
        // "v4" / "v6" = the peer's canonical sockets, "other" = a socket nobody advertises, "z" = port 0
        match spec {
            "v6" => SocketAddr::V6(v6_of(peer + 1)),
            "other" => SocketAddr::new(IpAddr::V4(Ipv4Addr::new(10, 7, 7, 7)), 7777),
            "lo6" => SocketAddr::V6(SocketAddrV6::new(Ipv6Addr::LOCALHOST, 9004, 0, 0)),      // ::1 is IPv4-compatible in form (::/96) but no IPv4 address
            "other6" => SocketAddr::V6(SocketAddrV6::new(Ipv6Addr::new(0x2001, 0xdb8, 7, 0, 0, 0, 0, 7), 7777, 0, 0)),
            "z" => SocketAddr::new(IpAddr::V4(*v4_of(peer + 1).ip()), 0),
            _ => SocketAddr::V4(v4_of(peer + 1)),
        }
    }
    fn sock_name(&self, a: &SocketAddr) -> String {
        match a.to_string().as_str() {
            "77.7.7.7:7000" => return "X4".into(),
            "88.8.8.8:8000" => return "Y4".into(),
            "99.9.9.9:9900" => return "Z4".into(),
            "[2001:db8:77::7]:7006" => return "X6".into(),
            "[2001:db8:88::8]:8006" => return "Y6".into(),
            "10.0.0.100:9000" => return "L4".into(),
            "[::1]:9004" => return "lo6".into(),
            _ => {}
        }
        for k in 1..=NPEERS {
            if *a == SocketAddr::V4(v4_of(k)) {
                return format!("p{k}.v4");
            }
            if *a == SocketAddr::V6(v6_of(k)) {
                return format!("p{k}.v6");
            }
        }
        a.to_string()
    }
    /// "r<N>", "@p<K>" (the latest request sent to that peer) or "#<k>" (the k-th oldest FINDNODE request not answered or failed so far)
    fn req_pos(&self, name: &str) -> Option<usize> {
        if let Some(k) = name.strip_prefix('#') {
            let k: usize = k.parse().ok()?;
            self.reqs.iter().enumerate().filter(|(_, r)| r.fnode && !r.answered).map(|(i, _)| i).nth(k.checked_sub(1)?)
        } else if let Some(peer) = name.strip_prefix('@') {
            let id = self.peers.get(self.peer_idx(peer))?.id;
            self.reqs.iter().rposition(|r| r.to.node_id == id)
        } else {
            self.reqs.iter().position(|r| r.name == name)
        }
    }
    fn rid_name(&self, id: &RequestId) -> String {
        self.reqs.iter().find(|r| r.id == *id).map(|r| r.name.clone()).unwrap_or_else(|| format!("x{}", hex::encode(&id.0)))
    }
    fn log2(&self, a: &NodeId, b: &NodeId) -> u64 {
        discv5::Key::from(*a).log2_distance(&discv5::Key::from(*b)).unwrap_or(0)
    }

    fn wire_size(&mut self, plain: &[u8]) -> usize {
        match self.sizer.as_mut() {
            Some((sess, dst)) => sess.encrypt(self.local_id, plain).map(|pv| pv.encode(dst).len()).unwrap_or(0),
            None => 0,
        }
    }

    fn observe(&mut self) -> Value {
        let mut hin = vec![];
        while let Ok(x) = self.hin.try_recv() {
            hin.push(match x {
                HandlerIn::Request(contact, req) => {
                    let na = contact.node_address();
                    let name = format!("r{}", self.reqs.len() + 1);
                    self.reqs.push(Pending { name: name.clone(), id: req.id.clone(), to: na.clone(), ds: if let RequestBody::FindNode { distances } = &req.body { distances.clone() } else { vec![] },
                                               fnode: matches!(&req.body, RequestBody::FindNode { .. }), answered: false });
                    let body = match &req.body {
                        RequestBody::Ping { enr_seq } => json!({"t": "ping", "seq": enr_seq}),
                        RequestBody::FindNode { distances } => json!({"t": "findnode", "ds": distances}),
                        RequestBody::Talk { protocol, request } => json!({"t": "talk", "proto": hex::encode(protocol), "req": hex::encode(request)}),
                    };
                    json!({"k": "Request", "to": self.id_name(&na.node_id), "addr": self.sock_name(&na.socket_addr), "rid": name,
                           "rec": contact.enr().map(|e| self.rec_name(&e)).unwrap_or_else(|| "none".into()), "body": body})
                }
                HandlerIn::Response(na, resp) => {
                    let plain = Message::Response((*resp).clone()).encode();
                    let wire = self.wire_size(&plain);
                    let body = match &resp.body {
                        ResponseBody::Pong { enr_seq, ip, port } => json!({"t": "pong", "seq": enr_seq, "sock": self.sock_name(&SocketAddr::new(*ip, port.get()))}),
                        ResponseBody::Nodes { total, nodes } => json!({"t": "nodes", "total": total, "recs": nodes.iter().map(|e| self.rec_name(e)).collect::<Vec<_>>(),
                            "dists": nodes.iter().map(|e| self.log2(&self.local_id, &e.node_id())).collect::<Vec<_>>()}),
                        ResponseBody::Talk { response } => json!({"t": "talk", "resp": hex::encode(response)}),
                    };
                    json!({"k": "Response", "to": self.id_name(&na.node_id), "addr": self.sock_name(&na.socket_addr), "rid": hex::encode(&resp.id.0), "body": body, "wire": wire, "plain": plain.len()})
                }
                HandlerIn::WhoAreYou(r, e) => json!({"k": "WhoAreYou", "to": self.id_name(&r.0.node_id), "rec": e.map(|e| self.rec_name(&e)).unwrap_or_else(|| "none".into())}),
                _ => json!({"k": "Other"}),
            });
        }
        let mut ev = vec![];
        while let Ok(x) = self.events.try_recv() {
            ev.push(match x {
                Event::Discovered(e) => json!({"e": "Discovered", "rec": self.rec_name(&e), "id": self.id_name(&e.node_id())}),
                Event::NodeInserted { node_id, replaced } => json!({"e": "NodeInserted", "id": self.id_name(&node_id), "replaced": replaced.map(|r| self.id_name(&r)).unwrap_or_else(|| "none".into())}),
                Event::SessionEstablished(e, a) => json!({"e": "SessionEstablished", "rec": self.rec_name(&e), "addr": self.sock_name(&a)}),
                Event::SocketUpdated(a) => json!({"e": "SocketUpdated", "sock": self.sock_name(&a)}),
                Event::TalkRequest(t) => {
                    let n = self.talks.len() + 1;
                    let v = json!({"e": "TalkRequest", "tr": n, "from": self.id_name(t.node_id()), "rid": hex::encode(&t.id().0), "proto": hex::encode(t.protocol()), "body": hex::encode(t.body())});
                    self.talks.push(Some(t));
                    v
                }
                Event::UnverifiableEnr { enr, node_id, .. } => json!({"e": "UnverifiableEnr", "rec": self.rec_name(&enr), "id": self.id_name(&node_id)}),
                Event::SessionsExpired(_) => json!({"e": "SessionsExpired"}),
                Event::UnrecognizedFrame(_) => json!({"e": "UnrecognizedFrame"}),
                #[allow(unreachable_patterns)]
                _ => json!({"e": "Other"}),
            });
        }
        let mut table: Vec<Value> = self.d.table_entries().into_iter().map(|(id, enr, st)| {
            let name = self.rec_name(&enr);
            let parts: Vec<&str> = name.split(':').collect();
            json!([self.id_name(&id), name, if st.is_connected() {"C"} else {"D"}, if st.is_incoming() {"I"} else {"O"},
                   self.log2(&self.local_id, &id), parts.get(1).and_then(|x| x.parse::<u64>().ok()).unwrap_or(0), parts.get(2).copied().unwrap_or("?")])
        }).collect();
        table.sort_by_key(|v| v[0].as_str().unwrap()[1..].parse::<usize>().unwrap_or(0));
        let bl = verif::ban_list_snapshot();
        let mut bn: Vec<String> = bl.ban_nodes.keys().map(|n| self.id_name(n)).collect();
        bn.sort();
        let mut bi: Vec<String> = bl.ban_ips.keys().map(|i| i.to_string()).collect();
        bi.sort();
        // the real handler leaves its loop when the service tells it to exit: its end of the channel closes
        if !self.exited && self.hexit.try_recv().is_ok() {
            self.exited = true;
            self.hin.close();
        }
        let le = self.d.local_enr();
        let mut done: Vec<Value> = std::mem::take(&mut *self.done.lock().unwrap());
        // results are named now (records may have become known after the lookup was started)
        for d in done.iter_mut() {
            if let Some(raw) = d.get("res_raw").and_then(|x| x.as_array()).cloned() {
                let names: Vec<String> = raw.iter().map(|h| {
                    let bytes = hex::decode(h.as_str().unwrap()).unwrap();
                    match <Enr as alloy_rlp::Decodable>::decode(&mut &bytes[..]) { Ok(e) => if e.node_id() == self.local_id { "L".to_string() } else { self.rec_name(&e) }, Err(_) => "?".to_string() }
                }).collect();
                let o = d.as_object_mut().unwrap();
                o.remove("res_raw");
                o.insert("res".into(), json!(names));
            }
        }
        json!({"hin": hin, "ev": ev, "table": table, "bans": {"nodes": bn, "ips": bi},
               "local": {"seq": le.seq(), "udp4": le.udp4_socket().map(|s| self.sock_name(&SocketAddr::V4(s))).unwrap_or_else(|| "none".into()),
                         "udp6": le.udp6_socket().map(|s| self.sock_name(&SocketAddr::V6(s))).unwrap_or_else(|| "none".into()), "valid": le.verify()},
               "done": done, "handler_exit": self.exited})
    }

    fn target_of(&mut self, t: &Value) -> NodeId {
        // {"xor": ["p3", k]}: the id of p3 with bit k (0 = lowest) flipped, i.e. at log2 distance k+1 from p3; {"peer": "p3"}; {"raw": n}
        if let Some(x) = t.get("xor") {
            let id = if x[0] == "L" { self.local_id } else { self.peers[self.peer_idx(x[0].as_str().unwrap())].id };
            let mut raw = id.raw();
            let k = x[1].as_u64().unwrap() as usize;
            raw[31 - k / 8] ^= 1 << (k % 8);
            NodeId::new(&raw)
        } else if let Some(p) = t.get("peer") {
            self.peers[self.peer_idx(p.as_str().unwrap())].id
        } else {
            let mut raw = [0u8; 32];
            raw[0] = t.get("raw").and_then(|x| x.as_u64()).unwrap_or(1) as u8;
            raw[5] = 0x5a;
            NodeId::new(&raw)
        }
    }

    async fn apply(&mut self, op: &Value) -> Value {
        let o = util::s(op, "o");
        let mut info = Map::new();
        match o {
            "add_enr" => {
                let e = self.rec(util::s(op, "rec"));
                info.insert("id".into(), json!(util::s(op, "rec").split(':').next().unwrap()));
                info.insert("ret".into(), json!(match self.d.add_enr(e) { Ok(()) => "ok".to_string(), Err(e) => format!("err: {e}") }));
            }
            "established" => {
                let spec = util::s(op, "rec").to_string();
                let e = self.rec(&spec);
                let pi = self.peer_idx(spec.split(':').next().unwrap());
                info.insert("id".into(), json!(spec.split(':').next().unwrap()));
                let from = self.sock(op.get("from").and_then(|x| x.as_str()).unwrap_or("v4"), pi);
                let dir = if op.get("dir").and_then(|x| x.as_str()) == Some("In") { ConnectionDirection::Incoming } else { ConnectionDirection::Outgoing };
                let _ = self.hout.send(HandlerOut::Established(e, from, dir)).await;
            }
            "unverifiable" => {
                let spec = util::s(op, "rec").to_string();
                let e = self.rec(&spec);
                let pi = self.peer_idx(util::s(op, "id"));
                let from = self.sock(op.get("from").and_then(|x| x.as_str()).unwrap_or("v4"), pi);
                let _ = self.hout.send(HandlerOut::UnverifiableEnr { enr: e, socket: from, node_id: self.peers[pi].id }).await;
            }
            "request_in" => {
                let pi = self.peer_idx(util::s(op, "peer"));
                let from = self.sock(op.get("from").and_then(|x| x.as_str()).unwrap_or("v4"), pi);
                let b = &op["body"];
                let body = match util::s(b, "t") {
                    "findnode" => RequestBody::FindNode { distances: b["ds"].as_array().unwrap().iter().map(|x| x.as_u64().unwrap()).collect() },
                    "talk" => RequestBody::Talk { protocol: b"proto".to_vec(), request: b.get("req").and_then(|x| x.as_str()).unwrap_or("hi").as_bytes().to_vec() },
                    _ => RequestBody::Ping { enr_seq: b.get("seq").and_then(|x| x.as_u64()).unwrap_or(1) },
                };
                let idlen = op.get("idlen").and_then(|x| x.as_u64()).unwrap_or(2) as usize;
                let mut idb = vec![0x51u8; idlen];
                if idlen > 0 {
                    idb[idlen - 1] = op.get("n").and_then(|x| x.as_u64()).unwrap_or(1) as u8;
                }
                info.insert("rid".into(), json!(hex::encode(&idb)));
                info.insert("src".into(), json!(self.sock_name(&from)));
                let _ = self.hout.send(HandlerOut::Request(NodeAddress::new(from, self.peers[pi].id), Box::new(Request { id: RequestId(idb), body }))).await;
            }
            "response_in" => {
                let pos = match self.req_pos(util::s(op, "req")) { Some(p) => p, None => { info.insert("unresolved".into(), json!("no such request")); return Value::Object(info); } };
                info.insert("req".into(), json!(self.reqs[pos].name));
                let (id, to) = (self.reqs[pos].id.clone(), self.reqs[pos].to.clone());
                let b = &op["body"];
                let body = match util::s(b, "t") {
                    "nodes" => {
                        let specs: Vec<String> = b["recs"].as_array().unwrap().iter().map(|x| x.as_str().unwrap().to_string()).collect();
                        let mut nodes = vec![];
                        let mut dists = vec![];
                        for sp in specs {
                            let e = if sp == "L" { self.d.local_enr() } else { self.rec(&sp) };
                            dists.push(self.log2(&to.node_id, &e.node_id()));
                            nodes.push(e);
                        }
                        info.insert("dists".into(), json!(dists));
                        // (TLC integers have 32 bits: a total of 2 000 000 000 in a behaviour stands for the largest claim, 2^64 - 1)
                        ResponseBody::Nodes { total: match b.get("total").and_then(|x| x.as_u64()).unwrap_or(1) { t if t >= 2_000_000_000 => u64::MAX, t => t }, nodes }
                    }
                    "talk" => ResponseBody::Talk { response: b"resp".to_vec() },
                    _ => {
                        let pi = self.peer_idx(b.get("as").and_then(|x| x.as_str()).unwrap_or("p1"));
                        let s = match b.get("sock").and_then(|x| x.as_str()).unwrap_or("v4") {
                            "L4" => SocketAddr::new(IpAddr::V4(Ipv4Addr::new(10, 0, 0, 100)), 9000),
                            "X4" => SocketAddr::new(IpAddr::V4(Ipv4Addr::new(77, 7, 7, 7)), 7000),
                            "Y4" => SocketAddr::new(IpAddr::V4(Ipv4Addr::new(88, 8, 8, 8)), 8000),
                            "Z4" => SocketAddr::new(IpAddr::V4(Ipv4Addr::new(99, 9, 9, 9)), 9900),
                            "X6" => SocketAddr::V6(SocketAddrV6::new(Ipv6Addr::new(0x2001, 0xdb8, 0x77, 0, 0, 0, 0, 7), 7006, 0, 0)),
                            "Y6" => SocketAddr::V6(SocketAddrV6::new(Ipv6Addr::new(0x2001, 0xdb8, 0x88, 0, 0, 0, 0, 8), 8006, 0, 0)),
                            other => self.sock(other, pi),
                        };
                        info.insert("vote".into(), json!(self.sock_name(&s)));
                        ResponseBody::Pong { enr_seq: b.get("seq").and_then(|x| x.as_u64()).unwrap_or(1), ip: s.ip(), port: std::num::NonZeroU16::new(s.port().max(1)).unwrap() }
                    }
                };
                info.insert("from".into(), json!(self.id_name(&to.node_id)));
                self.reqs[pos].answered = !matches!(&body, ResponseBody::Nodes { total, .. } if *total > 1);
                let _ = self.hout.send(HandlerOut::Response(to, Box::new(Response { id, body }))).await;
            }
            "fail" => {
                let pos = match self.req_pos(util::s(op, "req")) { Some(p) => p, None => { info.insert("unresolved".into(), json!("no such request")); return Value::Object(info); } };
                info.insert("req".into(), json!(self.reqs[pos].name));
                let id = self.reqs[pos].id.clone();
                info.insert("from".into(), json!(self.id_name(&self.reqs[pos].to.node_id)));
                self.reqs[pos].answered = true;
                let _ = self.hout.send(HandlerOut::RequestFailed(id, discv5::RequestError::Timeout)).await;
            }
            "lookup" => {
                let target = self.target_of(&op["target"]);
                self.ncalls += 1;
                let name = format!("l{}", self.ncalls);
                info.insert("call".into(), json!(name));
                let done = self.done.clone();
                let pred = op.get("pred").and_then(|x| x.as_str()).map(|s| s.to_string());
                let k = op.get("k").and_then(|x| x.as_u64()).unwrap_or(16) as usize;

                let lid = self.local_id;
                // rank of every pool node (and the local node) by XOR distance to the target: the order a result must be in
                let tkey = discv5::Key::from(target);
                let mut order: Vec<NodeId> = self.peers.iter().map(|p| p.id).chain(std::iter::once(lid)).collect();
                order.sort_by_key(|id| tkey.distance(&discv5::Key::from(*id)));
                let ranks: HashMap<NodeId, usize> = order.iter().enumerate().map(|(i, id)| (*id, i + 1)).collect();
                info.insert("k".into(), json!(if pred.is_some() { k } else { 16 }));
                // the candidates a lookup starts from: the (at most k) table entries closest to the target
                let mut tab: Vec<NodeId> = self.d.table_entries_id();
                tab.sort_by_key(|id| tkey.distance(&discv5::Key::from(*id)));
                tab.truncate(if pred.is_some() { k } else { 16 });
                info.insert("closest".into(), json!(tab.iter().map(|id| self.id_name(id)).collect::<Vec<_>>()));
                // the XOR order of all nodes the behaviour can mention (for the co-simulation of the lookup by Query.tla)
                let rk: Map<String, Value> = ranks.iter().map(|(id, r)| (self.id_name(id), json!(r))).collect();
                info.insert("ranks".into(), Value::Object(rk));
                info.insert("pred".into(), json!(pred.is_some()));
                let fut_plain = if pred.is_none() { Some(self.d.find_node(target)) } else { None };
                let fut_pred = if pred.is_some() { Some(self.d.find_node_predicate(target, Box::new(|e: &Enr| e.udp4_socket().is_some()), k)) } else { None };
                tokio::spawn(async move {
                    let r = match (fut_plain, fut_pred) {
                        (Some(f), _) => f.await,
                        (_, Some(f)) => f.await,
                        _ => unreachable!(),
                    };
                    let v = match r {
                        Ok(enrs) => json!({"call": name, "ok": true, "res_raw": enrs.iter().map(|e| hex::encode(alloy_rlp::encode(e))).collect::<Vec<_>>(),
                                           "ranks": enrs.iter().map(|e| ranks.get(&e.node_id()).copied().unwrap_or(0)).collect::<Vec<_>>()}),
                        Err(e) => json!({"call": name, "ok": false, "err": format!("{e:?}")}),
                    };
                    done.lock().unwrap().push(v);
                });
            }
            "designated" => {
                let e = self.rec(util::s(op, "rec"));
                let ds: Vec<u64> = op["ds"].as_array().unwrap().iter().map(|x| x.as_u64().unwrap()).collect();
                self.ncalls += 1;
                let name = format!("l{}", self.ncalls);
                info.insert("call".into(), json!(name));
                let done = self.done.clone();

                let fut = self.d.find_node_designated_peer(e, ds);
                tokio::spawn(async move {
                    let v = match fut.await {
                        Ok(enrs) => json!({"call": name, "ok": true, "res_raw": enrs.iter().map(|e| hex::encode(alloy_rlp::encode(e))).collect::<Vec<_>>()}),
                        Err(e) => json!({"call": name, "ok": false, "err": format!("{e:?}")}),
                    };
                    done.lock().unwrap().push(v);
                });
            }
            "talk_respond" | "talk_drop" => {
                let n = util::i(op, "tr") as usize;
                let t = self.talks.get_mut(n.wrapping_sub(1)).and_then(|x| x.take());
                match t {
                    Some(t) => {
                        // "empty": the application answers with an empty payload (still the application's answer, exactly one TALKRESP)
                        let payload: Vec<u8> = if op.get("empty").and_then(|x| x.as_bool()) == Some(true) { vec![] } else { b"answer".to_vec() };
                        // "unwind": the application task that holds the request object fails (panics); the object is dropped while unwinding
                        let unwind = op.get("unwind").and_then(|x| x.as_bool()) == Some(true);
                        let r = util::guarded(move || if o == "talk_respond" { format!("{:?}", t.respond(payload)) } else if unwind { let _held = t; panic!("application task fails") } else { drop(t); "dropped".to_string() });
                        info.insert("ret".into(), json!(match r { Ok(s) => s, Err(p) => if unwind && p.contains("application task fails") { "dropped".to_string() } else { format!("panic: {p}") } }));
                    }
                    None => {
                        info.insert("unresolved".into(), json!("no such talk request held"));
                    }
                }
            }
            "honest_reply" => {
                // the request r<N> is answered by a second real node with the responder's identity and the given table
                let pos = match self.req_pos(util::s(op, "req")) { Some(p) => p, None => { info.insert("unresolved".into(), json!("no such request")); return Value::Object(info); } };
                info.insert("req".into(), json!(self.reqs[pos].name));
                let (id, to) = (self.reqs[pos].id.clone(), self.reqs[pos].to.clone());
                let rname = self.id_name(&to.node_id);
                self.reqs[pos].answered = true;
                let ds: Vec<u64> = self.reqs[pos].ds.clone();
                info.insert("ds".into(), json!(ds));
                if !self.seconds.contains_key(&rname) {
                    let k = self.peer_idx(&rname) + 1;
                    // creating a Discv5 instance re-initialises the process-global permit/ban list: keep what was there
                    let saved = verif::ban_list_snapshot();
                    let mut w2 = Box::pin(World::new_as(&json!({"mode": self.mode, "maxnodes": 16}), Some(k))).await;
                    for n in saved.ban_nodes.keys() {
                        self.d.ban_node(n, None);
                    }
                    for ip in saved.ban_ips.keys() {
                        self.d.ban_ip(*ip, None);
                    }
                    for spec in op["table"].as_array().unwrap() {
                        let _ = self.rec(spec.as_str().unwrap());
                        let e = w2.rec(spec.as_str().unwrap());
                        let _ = w2.d.add_enr(e);
                    }
                    self.seconds.insert(rname.clone(), Box::new(w2));
                }
                let laddr = NodeAddress::new(SocketAddr::new(IpAddr::V4(Ipv4Addr::new(10, 0, 0, 100)), 9000), self.local_id);
                let mut packets = vec![];
                {
                    let w2 = self.seconds.get_mut(&rname).unwrap();
                    let _ = w2.hout.send(HandlerOut::Request(laddr, Box::new(Request { id: id.clone(), body: RequestBody::FindNode { distances: ds } }))).await;
                    tokio::time::sleep(Duration::from_millis(1)).await;
                    while let Ok(x) = w2.hin.try_recv() {
                        if let HandlerIn::Response(_, resp) = x {
                            packets.push(*resp);
                        }
                    }
                }
                let mut desc = vec![];
                for resp in packets {
                    if let ResponseBody::Nodes { total, nodes } = &resp.body {
                        let names: Vec<String> = nodes.iter().map(|e| { let n = self.rec_name(e); if n.starts_with('?') { let spec = format!("{}:{}:v4", self.id_name(&e.node_id()), e.seq()); let _ = self.rec(&spec); self.rec_name(e) } else { n } }).collect();
                        let dists: Vec<u64> = nodes.iter().map(|e| self.log2(&to.node_id, &e.node_id())).collect();
                        desc.push(json!({"total": total, "recs": names, "dists": dists}));
                    }
                    let _ = self.hout.send(HandlerOut::Response(to.clone(), Box::new(resp))).await;
                }
                info.insert("packets".into(), json!(desc));
                info.insert("from".into(), json!(rname));
            }
            // more events in one step than the application's event stream holds (100): n TALK requests from one peer, nobody reads
            // the stream until the step is over; what does not fit is lost, the stream itself must survive
            "flood" => {
                let n = op.get("n").and_then(|x| x.as_u64()).unwrap_or(120);
                let pi = self.peer_idx("p40");
                let from = self.sock("v4", pi);
                for i in 0..n {
                    let req = Request { id: RequestId(vec![0x77, (i / 200) as u8, (i % 200) as u8]), body: RequestBody::Talk { protocol: b"proto".to_vec(), request: b"flood".to_vec() } };
                    let _ = self.hout.send(HandlerOut::Request(NodeAddress::new(from, self.peers[pi].id), Box::new(req))).await;
                }
            }
            "shutdown" => self.d.shutdown(),
            "poke" | "end" => {
                let _ = self.hout.send(HandlerOut::UnrecognizedFrame(discv5::socket::UnrecognizedFrame { src_address: SocketAddr::new(IpAddr::V4(Ipv4Addr::LOCALHOST), 1), packet: vec![] })).await;
            }
            "advance" => tokio::time::sleep(Duration::from_millis(util::i(op, "ms") as u64)).await,
            // virtual time for the std::time users of the service: query and per-peer timeouts, vote lifetimes, pending table slots
            "age" => {
                let ok = self.d.verif_age(Duration::from_millis(util::i(op, "ms") as u64)).await;
                info.insert("ok".into(), json!(ok));
                // The poll that notices elapsed peer timeouts still works with the capacity computed before them, and nothing wakes the
                // service up again by itself; without a further wake-up the next event would race the query poll inside select! (two
                // legitimate but different schedules). One wake-up brings the service to a fixed point, so every step ends in one.
                tokio::time::sleep(Duration::from_millis(1)).await;
                let _ = self.hout.send(HandlerOut::UnrecognizedFrame(discv5::socket::UnrecognizedFrame { src_address: SocketAddr::new(IpAddr::V4(Ipv4Addr::LOCALHOST), 1), packet: vec![] })).await;
            }
            other => panic!("svc: unknown op {other}"),
        }
        Value::Object(info)
    }

    pub async fn step(&mut self, op: &Value) -> Value {
        let info = self.apply(op).await;
        tokio::time::sleep(Duration::from_millis(1)).await;
        tokio::task::yield_now().await;
        let obs = self.observe();
        let mut op2 = op.clone();
        if let (Some(o), Value::Object(i)) = (op2.as_object_mut(), info) {
            for (k, v) in i {
                o.insert(k, v);
            }
        }
        json!({"op": op2, "obs": obs, "mode": self.mode})
    }
}

fn clone_key(k: &CombinedKey) -> CombinedKey {
    match k {
        CombinedKey::Secp256k1(sk) => CombinedKey::Secp256k1(sk.clone()),
        CombinedKey::Ed25519(sk) => CombinedKey::Ed25519(sk.clone()),
    }
}

/// Pairwise geometry of the fixed peer pool, needed by the generators: log2 distances between peers and to the local id.
pub fn geometry() -> Value {
    let lid = NodeId::from(mk_key(1000).public());
    let ids: Vec<NodeId> = (1..=NPEERS).map(|i| NodeId::from(mk_key(i).public())).collect();
    let d = |a: &NodeId, b: &NodeId| discv5::Key::from(*a).log2_distance(&discv5::Key::from(*b)).unwrap_or(0);
    json!({"local": ids.iter().map(|x| d(&lid, x)).collect::<Vec<_>>(),
           "pair": ids.iter().map(|a| ids.iter().map(|b| d(a, b)).collect::<Vec<_>>()).collect::<Vec<_>>()})
}

pub fn run_behaviours(behaviours: &[Vec<Value>], out: &mut Out) -> Result<(), String> {
    for b in behaviours {
        let rt = tokio::runtime::Builder::new_current_thread().enable_time().start_paused(true).build().map_err(|e| e.to_string())?;
        rt.block_on(async {
            let mut w: Option<World> = None;
            for op in b {
                if util::s(op, "o") == "reset" {
                    let mut world = World::new(op).await;
                    tokio::time::sleep(Duration::from_millis(1)).await;
                    let obs = world.observe();
                    out.emit(&json!({"op": op, "obs": obs, "mode": world.mode}));
                    w = Some(world);
                    continue;
                }
                let world = w.as_mut().expect("behaviour must start with reset");
                let ev = world.step(op).await;
                out.emit(&ev);
            }
            // request objects still held are released one by one: a panicking destructor must not take the harness down with it
            if let Some(world) = w.as_mut() {
                for t in world.talks.drain(..).flatten() {
                    let _ = util::guarded(move || drop(t));
                }
            }
        });
        drop(rt);
    }
    Ok(())
}
