use serde_json::Value;
use std::io::{BufRead, BufReader, BufWriter, Write};

pub fn read_behaviours(path: &str) -> Vec<Vec<Value>> {
    let f = std::fs::File::open(path).unwrap_or_else(|e| panic!("open {path}: {e}"));
    BufReader::new(f)
        .lines()
        .map(|l| l.unwrap())
        .filter(|l| !l.trim().is_empty())
        .map(|l| serde_json::from_str::<Vec<Value>>(&l).expect("behaviour line must be a JSON array"))
        .collect()
}

pub struct Out {
    w: BufWriter<std::fs::File>,
    pub n: usize,
}

impl Out {
    pub fn create(path: &str) -> Out {
        Out {
            w: BufWriter::new(std::fs::File::create(path).unwrap_or_else(|e| panic!("create {path}: {e}"))),
            n: 0,
        }
    }
    pub fn emit(&mut self, v: &Value) {
        serde_json::to_writer(&mut self.w, v).unwrap();
        self.w.write_all(b"\n").unwrap();
        self.n += 1;
    }
}

impl Drop for Out {
    fn drop(&mut self) {
        let _ = self.w.flush();
    }
}

pub fn s<'a>(v: &'a Value, k: &str) -> &'a str {
    v.get(k).and_then(|x| x.as_str()).unwrap_or_else(|| panic!("field {k} missing in {v}"))
}
pub fn i(v: &Value, k: &str) -> i64 {
    v.get(k).and_then(|x| x.as_i64()).unwrap_or_else(|| panic!("field {k} missing in {v}"))
}
pub fn b(v: &Value, k: &str) -> bool {
    v.get(k).and_then(|x| x.as_bool()).unwrap_or_else(|| panic!("field {k} missing in {v}"))
}

/// Runs `f`, turning a panic of the code under test into data.
pub fn guarded<T>(f: impl FnOnce() -> T) -> Result<T, String> {
    let prev = std::panic::take_hook();
    std::panic::set_hook(Box::new(|_| {}));
    let r = std::panic::catch_unwind(std::panic::AssertUnwindSafe(f));
    std::panic::set_hook(prev);
    r.map_err(|e| {
        if let Some(s) = e.downcast_ref::<&str>() {
            s.to_string()
        } else if let Some(s) = e.downcast_ref::<String>() {
            s.clone()
        } else {
            "panic".to_string()
        }
    })
}
