"""Behaviour generation for the codec parts (C05, C06): TLC enumerates ALL abstract cases of the codec specification
(MC_*Codec_emit.cfg prints one `CASE` JSON line per case, with the design verdict); the cases are cut into behaviours
`[reset(seed, k), case, case, ...]` that the harness concretises (k seeded variants per case)."""
import json, os, re
import pipeline as P

CHUNK = 100


def behaviours(emit_cfg, k):
    def gen(part, tier, seed, workdir):
        rc, out, wall = P.tlc_run(part["spec"], os.path.join(P.SPEC, emit_cfg), workdir, workers=1, timeout=600)
        cases = [json.loads(m.group(1).encode().decode("unicode_escape")) for m in re.finditer(r'<<"CASE", "(.*)">>', out)]
        m = re.search(r"(\d+) distinct states found", out)
        if not cases or "Model checking completed. No error" not in out or not m or int(m.group(1)) != len(cases):
            raise P.ToolError("case emission with %s failed (%d cases)" % (emit_cfg, len(cases)))
        cases.sort(key=lambda c: json.dumps(c, sort_keys=True))
        P.log("  [%s] TLC %s: %d abstract cases emitted, %d variants each" % (part["component"], emit_cfg, len(cases), k[tier]))
        reset = {"o": "reset", "seed": int(seed), "k": k[tier]}
        return [[reset] + cases[i:i + CHUNK] for i in range(0, len(cases), CHUNK)]
    return gen


def _seen(events):
    """What the run put before the code (inputs only: the guard must not depend on what the code under test answered)."""
    seen = set()
    for e in events:
        op = e["op"]
        if op["o"] == "reset":
            continue
        if op["o"] == "raw":
            for v in e["vs"]:
                seen.add("raw:" + v.get("g", "?"))
            continue
        for d in op.get("dev", []):
            seen.add("dev:" + d)
        if not op.get("dev") and e["vs"]:
            seen.add("wellformed:" + op["o"] + ("+rec" if op.get("rec") == "valid" else ""))
    return seen


def packet_required(events):
    need = ["dev:" + d for d in ("TooShort", "TooLong", "OtherId", "ProtocolId", "Version", "Kind", "AuthSize", "WhoAreYouBody",
                                 "Rec:garbage", "Rec:trail", "Rec:big", "Rec:trunc")]
    need += ["wellformed:msg", "wellformed:way", "wellformed:hs", "wellformed:hs+rec", "raw:mut", "raw:len", "raw:valid", "raw:rand", "raw:hdr"]
    seen = _seen(events)
    return [n for n in need if n not in seen]


def rpc_required(events):
    need = ["dev:" + d for d in ("Missing", "Trailing", "IdLength", "Distance", "Port", "IpLength", "Record", "InnerListLength", "Type")]
    need += ["wellformed:" + t for t in ("ping", "pong", "findnode", "nodes", "talkreq", "talkresp")]
    need += ["raw:mut", "raw:rlp", "raw:valid", "raw:rand", "raw:len"]
    seen = _seen(events)
    return [n for n in need if n not in seen]


def interesting(e):
    return e["op"]["o"] == "raw" or bool(e["op"].get("dev"))


def measure(events):
    """Coverage figures of a codec run: abstract cases, concrete byte strings decoded by the real code, decisions."""
    m = dict(abstract_cases=0, concrete_inputs=0, accepted=0, rejected=0, panics=0, unconstrained_inputs=0, unconstrained_accepted=0,
             max_input_len=0, distinct_errors=[])
    errs, cases = set(), set()
    for e in events:
        op = e["op"]
        if op["o"] == "reset":
            continue
        raw = op["o"] == "raw"
        if not raw:
            cases.add(json.dumps({k: v for k, v in op.items() if k not in ("dev", "vd")}, sort_keys=True))
        for v in e["vs"]:
            m["concrete_inputs"] += 1
            m["unconstrained_inputs"] += raw
            m["accepted" if v["acc"] else "rejected"] += 1
            m["unconstrained_accepted"] += raw and v["acc"]
            m["panics"] += bool(v["panic"])
            m["max_input_len"] = max(m["max_input_len"], v["n"])
            if not v["acc"]:
                errs.add(v["err"][:60])
    m["abstract_cases"] = len(cases)
    m["distinct_errors"] = sorted(errs)[:40]
    return m
