#!/bin/bash
# confirm_seed.sh <seed dir>...   — confirms in a scratch worktree of /repo (removed afterwards):
#  (a) clean + demo.diff: demo passes  (b) patch + demo: demo fails  (c) patch alone: full suite passes
WT=/tmp/wt-confirm-$$
git -C /repo worktree add -q --detach $WT HEAD || exit 2
for d in "$@"; do
  id=$(basename $d); cmd=$(python3 -c "import json,sys;print(json.load(open('$d/meta.json'))['demo_cmd'])")
  cd $WT; git checkout -q -- . ; git clean -fdq -e target
  git apply $d/demo.diff && a=$(bash -c "$cmd" 2>&1 | grep -E "^test result" | head -1)
  git apply $d/patch.diff && b=$(bash -c "$cmd" 2>&1 | grep -E "^test result|panicked" | head -2 | tr '\n' ' ')
  git checkout -q -- . ; git clean -fdq -e target; git apply $d/patch.diff
  c=$(cargo test --offline --workspace --no-fail-fast 2>&1 | grep -E "^test result" | tr '\n' ' ')
  echo "$id | demo clean: $a | demo+patch: $b | suite with patch: $c"
done
cd /; git -C /repo worktree remove --force $WT
