#!/usr/bin/env python3
"""Regenerates MANIFEST.json from lib/parts.py + lib/manifest_meta.py (single source of truth)."""
import json, os, sys
sys.path.insert(0, os.path.dirname(os.path.abspath(__file__)))
from parts import PROPS
from manifest_meta import META, NOT_APPLICABLE, HOOK_COMMITS
ROOT = os.path.dirname(os.path.dirname(os.path.abspath(__file__)))
ids = [json.loads(l)["id"] for l in open(os.path.join(ROOT, "properties.jsonl"))]
checks = []
for pid in ids:
    if pid not in PROPS:
        continue
    m = META[pid]
    checks.append({
        "property_id": pid,
        "quick_cmd": "bin/check %s --tier quick" % pid,
        "thorough_cmd": "bin/check %s --tier thorough" % pid,
        "evidence_file": "evidence/%s.json" % pid,
        "replay_cmd_template": "bin/check %s --replay {path}" % pid,
        "engine": "tla-mbt",
        "level_claimed": {"category": "model_checking", "text": m["text"], "design_ref": "DESIGN.md section 5, " + pid},
        "level_note": m["note"],
        "technique": m["technique"],
    })
na = [{"property_id": p, "reason": NOT_APPLICABLE.get(p, "check not built yet in this round (planned in DESIGN.md section 5)")}
      for p in ids if p not in PROPS]
man = {
    "version": 1,
    "setup_cmd": "bin/setup",
    "hooks": {
        "guard": "discv5_verif",
        "enable": "RUSTFLAGS --cfg discv5_verif, set in /verif/harness/.cargo/config.toml (the harness has a path dependency on /repo)",
        "baseline_off_cmd": "cd /repo && cargo test --workspace --no-fail-fast --offline",
        "source_commits": HOOK_COMMITS,
        "add_only": True,
    },
    "engines": [{"name": "tla-mbt", "path": "bin/check", "serves_properties": [c["property_id"] for c in checks],
                 "kind_free_text": "explicit TLA+ specifications (spec/*.tla) model-checked with TLC; TLC-generated behaviours "
                                   "(coverage-goal counterexamples, simulation walks) replayed on the real code by the Rust harness "
                                   "(harness/, --cfg discv5_verif); recorded implementation traces validated by TLC against the "
                                   "specification (strict pass) and against the property formulas (monitor pass = oracle)"}],
    "checks": checks,
    "not_applicable": na,
    "notes": "VIOLATION only from property formulas evaluated by TLC on observations of the real code; a strict-conformance rejection "
             "without a property failure prints DIVERGENCE and does not fail the check. Tool errors exit 2.",
}
json.dump(man, open(os.path.join(ROOT, "MANIFEST.json"), "w"), indent=1)
print("MANIFEST.json: %d checks, %d not_applicable" % (len(checks), len(na)))
