HOOK_COMMITS = ["c99bd4d"]
NOT_APPLICABLE = {}
META = {
 "C15": dict(
   technique="TLA+ spec of the session cache (LruTimeCache.tla) model-checked exhaustively with TLC; TLC goal/simulation behaviours replayed on the real LruTimeCache; implementation traces validated by TLC (monitor formulas NoStale/Bound/EvictLru + strict conformance)",
   text="Exhaustive TLC exploration of the cache specification for 3-4 keys, capacities 1-4, ttl 1-3 with explicit time; the same specification is bound to the code in both directions: TLC-generated behaviours are executed on the real cache and every recorded step is validated by TLC against the specification and the property formulas. Decides the design within the bounds and the code on every generated/driven behaviour; not a proof for all sizes.",
   note="Virtual time by the verif_age hook (ageing stored instants) instead of real sleeping; the handler-level half of C15 (wire behaviour after an idle period) is bound by the handler part once built; u32 keys stand for NodeAddress."),
}
