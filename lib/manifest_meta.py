HOOK_COMMITS = ["c99bd4d", "2b50260", "a9b7862"]
NOT_APPLICABLE = {}
_KB_NOTE = ("K = 16 is a compile-time constant of the code: exhaustive TLC runs use K = 2/3, the code is bound at K = 16 by TLC simulation "
            "walks (with scripted prefixes that fill a bucket / set up the IP-limit corner) and seeded random driver runs, each validated by TLC "
            "against the same parametric specification. Model keys are embedded in 256-bit ids by bit placement (order preserving); virtual time "
            "by the KBucketsTable::verif_age hook.")
_H_NOTE = ("The real Handler::start() loop is driven in lockstep on a paused tokio clock over a virtual socket (hooks H1-H3); the harness plays the "
           "application, honest peers and the attacker with real keys through the crate's own packet/session primitives and attributes every datagram "
           "to the session key that decrypts it. socket/recv.rs and send.rs are bypassed. Cryptography is symbolic in the specification.")
_H_TECH = ("TLA+ spec of the handler (Handler.tla: handler/mod.rs, session.rs, active_requests.rs transcribed function by function, composed with an "
           "environment of peers/attacker/network in MC_Handler.tla) model-checked with TLC; TLC coverage-goal counterexamples and simulation walks "
           "replayed on the real Handler; every recorded step validated by TLC: strict conformance (events, datagrams, exemption map, bookkeeping) and ")
_Q_NOTE = ("Binding through the QueryFacade hook (explicit time). The service-level half (callback fires exactly once, pool query timeout) is not yet bound; "
           "liveness is model-checked on the specification (with weak fairness of polling and time) and checked on the code in its bounded form (a drain loop must reach Finished).")
META = {
 "C09": dict(technique="TLA+ transcription of FindNodeQuery/PredicateQuery (Query.tla) model-checked with TLC incl. the liveness formula; TLC goal/simulation behaviours and a random driver executed on the real state machines; traces validated by TLC (strict conformance of every peer state + monitor formulas C09.ContactTwice / Parallelism / NotTerminated)",
   text="All event orders (success, failure, silence, late success, any returned peer sets) for 4 peers exhaustively on the specification with CapInv, NwInv, ContactOnce and termination; on the code thousands of generated and random call sequences with up to 24 peers, each drained to completion.",
   note=_Q_NOTE),
 "C10": dict(technique="same Query.tla specification; result formulas (ordered, bounded, answered, predicate, complete) model-checked at every finished state and evaluated by TLC on into_result() of the real state machines",
   text="Exhaustive on the specification for 4 peers; on the code for every generated/random behaviour the final result is judged by TLC against the observed history of reports.",
   note=_Q_NOTE),
 "C01": dict(technique=_H_TECH + "the monitor formulas C01.Attribution / C01.KeyDisclosed over attributed observations",
   text="Design level: exhaustive TLC runs of handler + Dolev-Yao style attacker (own key, own/any record, any source address, replay) within small budgets with AuthInv/AuthEvInv. Code level: the generated attack behaviours (forged handshakes with own/newer/no record, from the attacker's and the victim's address, interleaved with genuine traffic) are executed against the real handler and every HandlerOut event and emitted datagram is judged by TLC. Bounded model checking + conformance, not a cryptographic proof.",
   note=_H_NOTE),
 "C02": dict(technique="TLC-generated base behaviours (sessions fresh / re-keyed / awaiting record) extended with a tamper catalogue concretised at byte level in the unmasked domain (flip, truncate, extend, splice, redirect, other source address); TLC monitor formulas C02.Delivered / C02.MutantAccepted on the recorded traces",
   text="Every delivered request/response must be a plaintext the attributed party really encrypted; no tampered variant of any injected datagram may be delivered or establish a session. Quick: ~250 variants; thorough: every field with many bit positions, all splices. AEAD integrity itself is assumed.",
   note=_H_NOTE + " Tampered behaviours are judged by the monitor pass only (no strict conformance)."),
 "C03": dict(technique=_H_TECH + "the monitor formulas C03.ReplayAccepted / NoChallenge / WrongSource / TwoHandshakes; design-level action property ConsumeStep",
   text="Replays of recorded handshakes and WHOAREYOUs at later points and from other addresses, second WHOAREYOUs, stale challenges: exhaustive in the small model (ConsumeStep: session keys change only in a step consuming exactly the outstanding challenge or answering a WHOAREYOU of an in-flight request), executed on the real handler for generated behaviours.",
   note=_H_NOTE),
 "C04": dict(technique=_H_TECH + "the monitor formulas C04.TwoOutcomes / EventAfterOutcome / NoOutcome (at quiescence) / TimeoutUnjustified / WireBound",
   text="Exhaustive TLC exploration of two concurrent requests under loss, duplication, WHOAREYOU at any time, re-keying (OutcomeInv, ExactlyOne); every generated behaviour is run to quiescence on the real handler (virtual time advanced past every deadline) and each request must have exactly one outcome.",
   note=_H_NOTE + " Liveness is checked on the code only in its bounded form (resolved at quiescence)."),
 "C13": dict(technique=_H_TECH + "the monitor formulas C13.Count (lower/upper bound from a ledger of outstanding requests and challenges built from observations) and C13.LeftOver (empty map at quiescence); design-level invariant ExemptInv",
   text="ExemptInv (exemptions of a socket = outstanding requests + outstanding challenges) is model-checked exhaustively; on the code the shared exemption map is read after every step and compared exactly with the specification (strict pass) and with an observation-only ledger (monitor pass).",
   note=_H_NOTE + " The ledger is exact except for windows in which an outstanding item is invisible to an observer (undecryptable datagrams, rejected handshakes), where a range is accepted."),
 "C19": dict(technique=_H_TECH + "the monitor formulas C19.NonceReuse / C19.IdNonceReuse over all captured datagrams grouped by the peer session that decrypts them",
   text="Observes every datagram the handler emits in all generated behaviours (requests, responses, retransmissions, re-encryption after re-keying, handshakes, WHOAREYOUs): equal (key, nonce) implies byte-identical datagram; id-nonces never repeat.",
   note=_H_NOTE + " Uniqueness of the random nonce parts is probabilistic and the 2^32 counter wrap is not reachable by execution."),
 "C07": dict(
   technique="TLA+ spec of the routing table (KBuckets.tla: bucket.rs/kbucket.rs/entry.rs transcribed call by call) model-checked exhaustively with TLC (invariants + action properties for the pending slot); TLC simulation behaviours replayed on the real KBucketsTable; implementation traces validated by TLC (C07 monitor formulas on observed tables + strict conformance)",
   text="All operation sequences over 4-5 keys, K = 2/3, every connection state/direction, incoming limit, pending timeout elapsed/not elapsed are explored exhaustively on the specification (complete reachable space, no depth bound, stamps rank-normalised); the specification is bound to the code by replaying TLC-generated behaviours at K = 16 on the real table and validating every recorded step (full table incl. first_connected_pos and pending timer) with TLC. Bounded model checking + conformance, not a proof for all sizes.",
   note=_KB_NOTE),
 "C08": dict(
   technique="TLA+ transcription of ClosestBucketsIter/ClosestIter/nodes_by_distances (KBuckets.tla) checked by TLC against the sorted full scan for all targets of a 3-bit key space and as a pure-function obligation (bucket order is a permutation) for 8 bits; closest_* / nodes_by_distances results of the real table checked by TLC against the scan of the same call's table",
   text="Exhaustive on the specification for every (table, target) of the small key space; on the code every closest_keys/closest_values/closest_values_predicate/nodes_by_distances call made in generated and random behaviours (targets at every model distance incl. 0 and odd distances, real buckets 0..255 through varied placements) is compared with the sorted scan by TLC.",
   note=_KB_NOTE),
 "C16": dict(
   technique="same KBuckets.tla specification with the two IP filters; TLC exhaustive with limits 2/2 on the design; scripted TLC simulation prefix (full bucket + pending candidate + table filled to the limit) and random driver on the real table with the crate's own IpTableFilter/IpBucketFilter at 2/10; observed tables checked by TLC (C16.Bucket, C16.Table)",
   text="Exhaustive on the specification with small limits; on the code at the real limits for generated/random behaviours including the pending-promotion corner. Entry-API insertions are excluded when filters are on (documented in the code as bypassing the table filter).",
   note=_KB_NOTE),
 "C15": dict(
   technique="TLA+ spec of the session cache (LruTimeCache.tla) model-checked exhaustively with TLC; TLC goal/simulation behaviours replayed on the real LruTimeCache; implementation traces validated by TLC (monitor formulas NoStale/Bound/EvictLru + strict conformance)",
   text="Exhaustive TLC exploration of the cache specification for 3-4 keys, capacities 1-4, ttl 1-3 with explicit time; the same specification is bound to the code in both directions: TLC-generated behaviours are executed on the real cache and every recorded step is validated by TLC against the specification and the property formulas. Decides the design within the bounds and the code on every generated/driven behaviour; not a proof for all sizes.",
   note="Virtual time by the verif_age hook (ageing stored instants) instead of real sleeping; the handler-level half (a session idle beyond the timeout is not used to encrypt or accept, cache bounded) is checked on the real handler by the monitor formulas C15.StaleSessionUsed / C15.Capacity; u32 keys stand for NodeAddress in the cache part."),
}

# ---------------------------------------------------------------------------------------------- C18
META["C18"] = dict(
   technique="TLA+ transcription of the GCRA rate limiter, of the two-stage packet filter with the process-global permit/ban list and of the receive task's handle_inbound "
             "(Filter.tla: rate_limiter.rs, filter/mod.rs, permit_ban.rs, recv.rs) model-checked exhaustively with TLC at three levels (MC_Limiter, MC_Filter, MC_Recv: every arrival "
             "sequence, prune interleaving, ban/permit combination within the bounds; a second, never-pruned copy is stepped side by side); TLC goal counterexamples, simulation walks "
             "and seeded random drivers executed on the real Limiter (explicit time), the real Filter + RateLimiter + PERMIT_BAN_LIST (virtual time by an ageing hook) and the real "
             "RecvHandler::handle_inbound fed with real datagrams; every recorded step validated by TLC: strict conformance (verdicts, stored arrival times, ban list with expiry, tracking "
             "maps, expected-response set) and the monitor formulas C18.Window / WindowIp / WindowTotal / WindowNode / RefusedWithinQuota / PruneNeutral / BanPermit / ExcessNotBanned / "
             "BanTooShort on a ledger of observations",
   text="Design level: for 1-2 keys / 2 IPs x 2 node ids, bursts 1..4, up to 6-7 arrivals over 3-7 ticks, prune anywhere, every initial combination of ban/permit entries plus "
        "list operations, datagrams with / without a source id or undecodable, sources with an expected response: the window bound (let-through <= burst + rate x window for every window), "
        "'conforming traffic is never refused', prune neutrality, stage verdicts vs ban/permit lists and ban duration hold in every reachable state, and the stronger exact "
        "characterisation (refused iff it does not fit with those let through) holds for the limiter. Code level: hundreds (quick) to thousands (thorough) of generated and random "
        "behaviours (up to 4 IPs, 5 node ids, bursts up to 8, batches up to 3 tokens) on the real code, each step judged by TLC. Bounded model checking + conformance, not a proof for all sizes.",
   note="Quotas with period divisible by burst only (stated assumption). The limiter level is exact (explicit time); at the filter and receive-task levels the RateLimiter reads the real "
        "clock on top of the virtual time passed by RateLimiter::verif_age (one tick = 10 s, the real run time of a behaviour is microseconds; a behaviour slower than half a tick would be "
        "re-run). The receive loop (recv_from, the 30 s prune timer) is not executed: handle_inbound and prune_limiter are called directly; the handler owns a loopback UDP socket that is never "
        "read. max_nodes_per_ip / max_bans_per_ip are switched off where 'never refused' is judged. The window formulas count a datagram as let through only if every stage it took passed it "
        "and exclude datagrams whose IP / node id was on the permit list or from whose source a response was expected (the weakest reading of the statement). Ban expiry (unban_nodes_check) "
        "belongs to the handler, not to the filter: 'banned for at least the configured duration' is judged on the recorded expiry instant.")
HOOK_COMMITS.append("a47e4ae")   # branch build-C18 of the crate: filter / limiter / receive-task facades (update if the commit is re-created on merge)
