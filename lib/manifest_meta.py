HOOK_COMMITS = ["c99bd4d", "2b50260", "a9b7862", "cbfbc5a", "1e95adf", "8d6ac0c", "6a082ac", "fc71b26"]
NOT_APPLICABLE = {}
_KB_NOTE = ("K = 16 is a compile-time constant of the code: exhaustive TLC runs use K = 2/3, the code is bound at K = 16 by TLC simulation "
            "walks (with scripted prefixes that fill a bucket / set up the IP-limit corner) and seeded random driver runs, each validated by TLC "
            "against the same parametric specification. Model keys are embedded in 256-bit ids by bit placement (order preserving); virtual time "
            "by the KBucketsTable::verif_age hook.")
_H_NOTE = ("The real Handler::start() loop is driven in lockstep on a paused tokio clock over a virtual socket (hooks H1-H3); the harness plays the "
           "application, honest peers and the attacker with real keys through the crate's own packet/session primitives and attributes every datagram "
           "to the session key that decrypts it. socket/recv.rs and send.rs are bypassed. Cryptography is symbolic in the specification.")
_H_TECH = ("TLA+ spec of the handler (Handler.tla: handler/mod.rs, session.rs, active_requests.rs transcribed function by function, composed with an "
           "environment of peers/attacker/network in MC_Handler.tla) model-checked with TLC; TLC coverage-goal counterexamples and simulation walks "
           "replayed on the real Handler; every recorded step validated by TLC: strict conformance (events, datagrams, exemption map, bookkeeping) and ")
_Q_NOTE = ("Binding through the QueryFacade hook (explicit time). The service-level half (callback fires exactly once, pool query timeout) is not yet bound; "
           "liveness is model-checked on the specification (with weak fairness of polling and time) and checked on the code in its bounded form (a drain loop must reach Finished).")
_S_NOTE = ("The real Service is run with a scripted handler (hook H4): the harness receives every HandlerIn and injects HandlerOut events on a paused tokio clock. "
           "Node ids are hashes of fixed keys (pool geometry); the Handler and the UDP tasks are not part of these runs.")
META = {
 "C11": dict(technique="TLA+ transcription of findnode_log2distance, the NODES distance filter / banning / multi-packet counting and the honest responder (NodesExchange.tla): pure-function obligations for all 257 distance classes plus exhaustive exploration of malicious packet sequences with TLC; TLC-simulated exchanges executed on the real service, with a second real node as the honest responder; reported records and the ban list judged by TLC against the specification's request state fed with the observed packets (C11.* formulas)",
   text="Design: for every log2 class 0..256 the honest answer (single and split) is accepted completely and never banned; malicious sequences (totals 0..99, off-distance records, the requester's record, duplicates, up to 17 packets) satisfy AcceptedExact, BanIffOff, PacketCap, AfterDone. Code: lookups with targets at chosen distances from a peer (incl. adjacent ids -> [1,2,0] and target = peer -> [0]); answers built from the fixed peer pool by distance class; Discovered events and the process-global ban list observed after every packet.",
   note=_S_NOTE + " Accepted records are observed through Event::Discovered (report_discovered_peers); records at low distances cannot be mined, low classes are exercised with own-record / empty answers, as an honest node would give."),
 "C12": dict(technique="TLA+ spec of the table admission / update policy (TablePolicy.tla) model-checked exhaustively in each IP mode (AdmitInv, OnlyBySession, SingleStack, ReplaceRule); TLC-simulated sequences of session reports, discovered records, pongs, failures and user adds over every record shape executed on the real service with a table filter; the routing table observed after every step and judged by TLC (C12.Admit / OnlyBySession / ReplaceRule); the handler half (C12.SingleStack: Established(Incoming) only when the record's UDP address equals the packet source) on the real Handler traces",
   text="Design: all sequences over 2 ids x 2 seqs x address shapes (none/src/other/mapped) x filter verdicts, 3 IP modes. Code: record shapes v4, v6, both, none, v4-mapped v6, mismatching address, filter-rejected; seq lower/equal/higher; sessions in both directions from the advertised and from other addresses; NODES answers carrying newer/older/other-shaped records of stored nodes.",
   note=_S_NOTE + " 'A record learnt from the network' is read as a record arriving in a NODES response (DESIGN 5/C12)."),
 "C17": dict(technique="TLA+ spec of the vote store and update rule (IpVote.tla): the code's single pass over the hash map is proved equal to the declarative clear-majority winner for every vote map and iteration order (TLC-evaluated ASSUME), the update rule model-checked as an action property; TLC-simulated PONG sequences executed on the real service; local record, sequence number, signature and SocketUpdated events judged by TLC (C17.* formulas)",
   text="Design: 4-5 voters, 3 addresses, minimum 2/3, vote expiry by ticks; every vote map x every iteration order. Code: 7 voters (outgoing and incoming), competing addresses, voters changing their vote after re-pings, IPv4 and dual-stack; every change of the advertised address must be backed by the ledger of counted votes.",
   note=_S_NOTE + " Vote expiry (std::time) is covered on the specification only; the ledger counts the votes the node itself counts (connected outgoing voters; every voter in dual-stack mode). Where 0.7*max is a half both roundings are accepted."),
 "C14": dict(technique="TLA+ transcription of send_nodes_response (Serve.tla) with RLP/datagram size arithmetic, TLC-exhaustive over all record-size sequences; TLC-simulated FINDNODE/PING behaviours executed on the real service; each answer measured by really encrypting and encoding it, judged by TLC (C14.* monitor formulas)",
   text="Design: every sequence of record sizes {120,129,299,300} up to 7 (quick) / 9 and {129,300} up to 17 records, id lengths 0/2/8: every packet fits 1280 bytes and all records are sent. Code: generated tables (incl. 300-byte records), distance lists (empty, duplicates, unsorted, out of range, 0), id lengths and requester addresses; answers compared with the table observed before the request.",
   note=_S_NOTE),
 "C20": dict(technique="TLA+ spec of TALK request objects (Talk.tla) model-checked exhaustively (OnceInv, ExactInv, HeldSilent); every order of respond/drop/hold/shutdown up to 3 concurrent requests, goal and simulation behaviours replayed on the real service; responses judged by TLC (C20.* monitor formulas) and compared step by step with the specification (strict)",
   text="All interleavings of deliver / respond / drop / shutdown for 3 requests on the specification; on the code the same behaviours plus longer simulated ones; after shutdown the harness closes the transport end as the real handler does, so respond must return an error value and drop must be silent (a panic is reported).",
   note=_S_NOTE),
 "C09": dict(technique="TLA+ transcription of FindNodeQuery/PredicateQuery (Query.tla) model-checked with TLC incl. the liveness formula; TLC goal/simulation behaviours and a random driver executed on the real state machines; traces validated by TLC (strict conformance of every peer state + monitor formulas C09.ContactTwice / Parallelism); TLC-generated schedules for the lookups of the real service with a scripted handler (MC_Lookup), judged by the service-level formulas C09.CallbackTwice / NoCallback / ResultLost / SamePeerTwice / InFlight",
   text="All event orders (success, failure, silence, late success, any returned peer sets) for 4 peers exhaustively on the specification with CapInv, NwInv, ContactOnce and termination; on the code thousands of generated and random call sequences with up to 24 peers, each drained to completion or cut off; at the service, schedules of answers by a second real node, empty answers, failures, per-peer and query time-outs (virtual time) with the callback observed through Discv5::find_node / find_node_predicate.",
   note=_Q_NOTE),
 "C10": dict(technique="same Query.tla specification; result formulas (ordered, bounded, answered, predicate, complete) model-checked at every finished state and evaluated by TLC on into_result() of the real state machines and on the callback value of Discv5::find_node / find_node_predicate (service with scripted handler)",
   text="Exhaustive on the specification for 4 peers; on the code for every generated/random behaviour the final result is judged by TLC against the observed history of reports.",
   note=_Q_NOTE),
 "C01": dict(technique=_H_TECH + "the monitor formulas C01.Attribution / C01.KeyDisclosed over attributed observations",
   text="Design level: exhaustive TLC runs of handler + Dolev-Yao style attacker (own key, own/any record, any source address, replay) within small budgets with AuthInv/AuthEvInv. Code level: the generated attack behaviours (forged handshakes with own/newer/no record, from the attacker's and the victim's address, interleaved with genuine traffic) are executed against the real handler and every HandlerOut event and emitted datagram is judged by TLC. Bounded model checking + conformance, not a cryptographic proof.",
   note=_H_NOTE),
 "C02": dict(technique="TLC-generated base behaviours (sessions fresh / re-keyed / awaiting record) extended with a tamper catalogue concretised at byte level in the unmasked domain (flip, truncate, extend, splice, redirect, other source address); TLC monitor formulas C02.Delivered / C02.MutantAccepted on the recorded traces",
   text="Every delivered request/response must be a plaintext the attributed party really encrypted; no tampered variant of any injected datagram may be delivered or establish a session. Quick: ~250 variants; thorough: every field with many bit positions, all splices. AEAD integrity itself is assumed.",
   note=_H_NOTE + " Tampered behaviours are judged by the monitor pass only (no strict conformance)."),
 "C03": dict(technique=_H_TECH + "the monitor formulas C03.ReplayAccepted / NoChallenge / WrongSource / TwoHandshakes; design-level action property ConsumeStep",
   text="Replays of recorded handshakes and WHOAREYOUs at later points and from other addresses, second WHOAREYOUs, stale challenges: exhaustive in the small model (ConsumeStep: session keys change only in a step consuming exactly the outstanding challenge or answering a WHOAREYOU of an in-flight request), executed on the real handler for generated behaviours.",
   note=_H_NOTE),
 "C04": dict(technique=_H_TECH + "the monitor formulas C04.TwoOutcomes / EventAfterOutcome / NoOutcome (at quiescence) / TimeoutUnjustified / WireBound",
   text="Exhaustive TLC exploration of two concurrent requests under loss, duplication, WHOAREYOU at any time, re-keying (OutcomeInv, ExactlyOne); every generated behaviour is run to quiescence on the real handler (virtual time advanced past every deadline) and each request must have exactly one outcome.",
   note=_H_NOTE + " Liveness is checked on the code only in its bounded form (resolved at quiescence)."),
 "C13": dict(technique=_H_TECH + "the monitor formulas C13.Count (lower/upper bound from a ledger of outstanding requests and challenges built from observations) and C13.LeftOver (empty map at quiescence); design-level invariant ExemptInv",
   text="ExemptInv (exemptions of a socket = outstanding requests + outstanding challenges) is model-checked exhaustively; on the code the shared exemption map is read after every step and compared exactly with the specification (strict pass) and with an observation-only ledger (monitor pass).",
   note=_H_NOTE + " The ledger is exact except for windows in which an outstanding item is invisible to an observer (undecryptable datagrams, rejected handshakes), where a range is accepted."),
 "C19": dict(technique=_H_TECH + "the monitor formulas C19.NonceReuse / C19.IdNonceReuse over all captured datagrams grouped by the peer session that decrypts them",
   text="Observes every datagram the handler emits in all generated behaviours (requests, responses, retransmissions, re-encryption after re-keying, handshakes, WHOAREYOUs): equal (key, nonce) implies byte-identical datagram; id-nonces never repeat.",
   note=_H_NOTE + " Uniqueness of the random nonce parts is probabilistic and the 2^32 counter wrap is not reachable by execution."),
 "C07": dict(
   technique="TLA+ spec of the routing table (KBuckets.tla: bucket.rs/kbucket.rs/entry.rs transcribed call by call) model-checked exhaustively with TLC (invariants + action properties for the pending slot); TLC simulation behaviours replayed on the real KBucketsTable; implementation traces validated by TLC (C07 monitor formulas on observed tables + strict conformance)",
   text="All operation sequences over 4-5 keys, K = 2/3, every connection state/direction, incoming limit, pending timeout elapsed/not elapsed are explored exhaustively on the specification (complete reachable space, no depth bound, stamps rank-normalised); the specification is bound to the code by replaying TLC-generated behaviours at K = 16 on the real table and validating every recorded step (full table incl. first_connected_pos and pending timer) with TLC. Bounded model checking + conformance, not a proof for all sizes.",
   note=_KB_NOTE),
 "C08": dict(
   technique="TLA+ transcription of ClosestBucketsIter/ClosestIter/nodes_by_distances (KBuckets.tla) checked by TLC against the sorted full scan for all targets of a 3-bit key space and as a pure-function obligation (bucket order is a permutation) for 8 bits; closest_* / nodes_by_distances results of the real table checked by TLC against the scan of the same call's table",
   text="Exhaustive on the specification for every (table, target) of the small key space; on the code every closest_keys/closest_values/closest_values_predicate/nodes_by_distances call made in generated and random behaviours (targets at every model distance incl. 0 and odd distances, real buckets 0..255 through varied placements) is compared with the sorted scan by TLC.",
   note=_KB_NOTE),
 "C16": dict(
   technique="same KBuckets.tla specification with the two IP filters; TLC exhaustive with limits 2/2 on the design; scripted TLC simulation prefix (full bucket + pending candidate + table filled to the limit) and random driver on the real table with the crate's own IpTableFilter/IpBucketFilter at 2/10; observed tables checked by TLC (C16.Bucket, C16.Table)",
   text="Exhaustive on the specification with small limits; on the code at the real limits for generated/random behaviours including the pending-promotion corner. Entry-API insertions are excluded when filters are on (documented in the code as bypassing the table filter).",
   note=_KB_NOTE),
 "C15": dict(
   technique="TLA+ spec of the session cache (LruTimeCache.tla) model-checked exhaustively with TLC; TLC goal/simulation behaviours replayed on the real LruTimeCache; implementation traces validated by TLC (monitor formulas NoStale/Bound/EvictLru + strict conformance)",
   text="Exhaustive TLC exploration of the cache specification for 3-4 keys, capacities 1-4, ttl 1-3 with explicit time; the same specification is bound to the code in both directions: TLC-generated behaviours are executed on the real cache and every recorded step is validated by TLC against the specification and the property formulas. Decides the design within the bounds and the code on every generated/driven behaviour; not a proof for all sizes.",
   note="Virtual time by the verif_age hook (ageing stored instants) instead of real sleeping; the handler-level half (a session idle beyond the timeout is not used to encrypt or accept, cache bounded) is checked on the real handler by the monitor formulas C15.StaleSessionUsed / C15.Capacity; u32 keys stand for NodeAddress in the cache part."),
}

# ------------------------------------------------------------------------------------------------ codecs (C05, C06)
_CODEC_NOTE = ("Decision-table model + generated concrete cases: TLA+ decides the case analysis (Verdict against the rejections / acceptances the "
               "property requires, over every abstract case) and TLC generates the cases; each case is concretised into k seeded byte strings by the "
               "harness's independent reference encoders (own AES-128-CTR masking / own RLP, discv5.1 layout) and decoded by the real code inside a "
               "panic guard; TLC judges the recorded observations. Totality is established on the generated classes and on seeded random / mutated "
               "strings (unmasked-domain mutations), not on all byte strings: model-based test generation, not proof. No hook beyond the existing "
               "byte-level facade (discv5::verif::{packet_decode, PacketView, Message}) is used.")
META["C05"] = dict(
    technique="TLA+ transcription of the decision structure of Packet::decode / PacketKind::decode over abstract datagrams (PacketCodec.tla: Verdict, "
              "Required, WellFormed) checked by TLC over all 12930 abstract cases; every case replayed on the real codec (k variants) through the "
              "byte-level facade, plus a seeded driver of unconstrained strings (lengths 0..1400, random, header-valid noise, mutations of valid "
              "datagrams in the unmasked domain); traces validated by TLC (strict conformance to Verdict incl. the error kind + monitor formulas "
              "C05.Panic / TooShort / TooLong / OtherId / ProtocolId / Version / Kind / AuthSize / WhoAreYouBody / Rejected / Fields / AuthData / "
              "Layout / RoundTrip)",
    text="Design level: for every abstract datagram (layout built x kind byte x signature/key sizes 0/64|33/255/any x record none/valid/garbage/trailing/"
         "oversized/truncated x auth-size field exact/raised/lowered/beyond x body empty/1/mid/to 1280/over x truncation x masking id x protocol id x "
         "version) the transcribed decision rejects what C05 lists and accepts the well-formed ones. Code level: each case is built byte-exactly by an "
         "independent encoder and decoded by the real code: decision, decoded fields, authenticated bytes (iv || unmasked header || auth-data), "
         "re-encoding = independent layout, decode(encode(p)) = p, never a panic; unconstrained strings: no panic and round trip of whatever is accepted.",
    note=_CODEC_NOTE + " socket/recv.rs and send.rs only hand the datagram and the node id to these functions and are not executed. A node id that "
         "shares its first 16 bytes with the decoder's is indistinguishable by the wire format (masking key = dest-id[..16]) and is not counted as 'another id'.")
META["C06"] = dict(
    technique="TLA+ transcription of the decision structure of Message::decode over abstract messages (RpcCodec.tla) checked by TLC over all 11124 "
              "abstract cases (the NODES inner-list obligation is a separate invariant whose counterexample is replayed); every case replayed on the "
              "real codec (k variants) with an independent RLP encoder, plus a seeded driver of unconstrained strings (random bytes, random RLP "
              "structures around valid messages, mutations of valid encodings); traces validated by TLC (strict conformance to Verdict + monitor "
              "formulas C06.Panic / Missing / Trailing / IdLength / Distance / Port / IpLength / Record / InnerListLength / Rejected / Fields / Layout / RoundTrip)",
    text="Design level: for every abstract message (type 0..7 x id length 0..9 x outer list exact/truncated/over-/under-declared/trailing/string x "
         "missing/extra/no fields x per-type classes: integers zero/small/2^64-1/9-byte/non-canonical, IP 4/16/other bytes with plain/mapped/compatible/"
         "loopback IPv6, port 0/1../65535/3-byte, 0..16 distances <=256/>256, 0..4 records valid/bad signature/truncated/not a list, inner list "
         "exact/short/long/string, payloads empty/1 byte/short/long) the transcribed decision rejects what C06 lists and accepts the well-formed ones. "
         "Code level: each case is built by an independent RLP encoder and decoded by the real code: decision, decoded fields, re-encoding = "
         "independent layout (= the input for well-formed cases), decode(encode(m)) = m, never a panic.",
    note=_CODEC_NOTE + " Known finding on the pinned tree (F10): bytes after the inner list of a NODES response are parsed as further records "
         "(formula C06.InnerListLength, listed in known_findings.json).")
# ---------------------------------------------------------------------------------------------- C18
META["C18"] = dict(
   technique="TLA+ transcription of the GCRA rate limiter, of the two-stage packet filter with the process-global permit/ban list and of the receive task's handle_inbound "
             "(Filter.tla: rate_limiter.rs, filter/mod.rs, permit_ban.rs, recv.rs) model-checked exhaustively with TLC at three levels (MC_Limiter, MC_Filter, MC_Recv: every arrival "
             "sequence, prune interleaving, ban/permit combination within the bounds; a second, never-pruned copy is stepped side by side); TLC goal counterexamples, simulation walks "
             "and seeded random drivers executed on the real Limiter (explicit time), the real Filter + RateLimiter + PERMIT_BAN_LIST (virtual time by an ageing hook) and the real "
             "RecvHandler::handle_inbound fed with real datagrams; every recorded step validated by TLC: strict conformance (verdicts, stored arrival times, ban list with expiry, tracking "
             "maps, expected-response set) and the monitor formulas C18.Window / WindowIp / WindowTotal / WindowNode / RefusedWithinQuota / PruneNeutral / BanPermit / ExcessNotBanned / "
             "BanTooShort on a ledger of observations",
   text="Design level: for 1-2 keys / 2 IPs x 2 node ids, bursts 1..4, up to 6-7 arrivals over 3-7 ticks, prune anywhere, every initial combination of ban/permit entries plus "
        "list operations, datagrams with / without a source id or undecodable, sources with an expected response: the window bound (let-through <= burst + rate x window for every window), "
        "'conforming traffic is never refused', prune neutrality, stage verdicts vs ban/permit lists and ban duration hold in every reachable state, and the stronger exact "
        "characterisation (refused iff it does not fit with those let through) holds for the limiter. Code level: hundreds (quick) to thousands (thorough) of generated and random "
        "behaviours (up to 4 IPs, 5 node ids, bursts up to 8, batches up to 3 tokens) on the real code, each step judged by TLC. Bounded model checking + conformance, not a proof for all sizes.",
   note="Quotas with period divisible by burst only (stated assumption). The limiter level is exact (explicit time); at the filter and receive-task levels the RateLimiter reads the real "
        "clock on top of the virtual time passed by RateLimiter::verif_age (one tick = 10 s, the real run time of a behaviour is microseconds; a behaviour slower than half a tick would be "
        "re-run). The receive loop (recv_from, the 30 s prune timer) is not executed: handle_inbound and prune_limiter are called directly; the handler owns a loopback UDP socket that is never "
        "read. max_nodes_per_ip / max_bans_per_ip are switched off where 'never refused' is judged. The window formulas count a datagram as let through only if every stage it took passed it "
        "and exclude datagrams whose IP / node id was on the permit list or from whose source a response was expected (the weakest reading of the statement). Ban expiry (unban_nodes_check) "
        "belongs to the handler, not to the filter: 'banned for at least the configured duration' is judged on the recorded expiry instant.")
HOOK_COMMITS.append("69be644")
HOOK_COMMITS.append("655814b")
HOOK_COMMITS.append("f73ad0c")
HOOK_COMMITS.append("e1005ee")
