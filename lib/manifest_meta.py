HOOK_COMMITS = ["c99bd4d"]
NOT_APPLICABLE = {}
_KB_NOTE = ("K = 16 is a compile-time constant of the code: exhaustive TLC runs use K = 2/3, the code is bound at K = 16 by TLC simulation "
            "walks (with scripted prefixes that fill a bucket / set up the IP-limit corner) and seeded random driver runs, each validated by TLC "
            "against the same parametric specification. Model keys are embedded in 256-bit ids by bit placement (order preserving); virtual time "
            "by the KBucketsTable::verif_age hook.")
META = {
 "C07": dict(
   technique="TLA+ spec of the routing table (KBuckets.tla: bucket.rs/kbucket.rs/entry.rs transcribed call by call) model-checked exhaustively with TLC (invariants + action properties for the pending slot); TLC simulation behaviours replayed on the real KBucketsTable; implementation traces validated by TLC (C07 monitor formulas on observed tables + strict conformance)",
   text="All operation sequences over 4-5 keys, K = 2/3, every connection state/direction, incoming limit, pending timeout elapsed/not elapsed are explored exhaustively on the specification (complete reachable space, no depth bound, stamps rank-normalised); the specification is bound to the code by replaying TLC-generated behaviours at K = 16 on the real table and validating every recorded step (full table incl. first_connected_pos and pending timer) with TLC. Bounded model checking + conformance, not a proof for all sizes.",
   note=_KB_NOTE),
 "C08": dict(
   technique="TLA+ transcription of ClosestBucketsIter/ClosestIter/nodes_by_distances (KBuckets.tla) checked by TLC against the sorted full scan for all targets of a 3-bit key space and as a pure-function obligation (bucket order is a permutation) for 8 bits; closest_* / nodes_by_distances results of the real table checked by TLC against the scan of the same call's table",
   text="Exhaustive on the specification for every (table, target) of the small key space; on the code every closest_keys/closest_values/closest_values_predicate/nodes_by_distances call made in generated and random behaviours (targets at every model distance incl. 0 and odd distances, real buckets 0..255 through varied placements) is compared with the sorted scan by TLC.",
   note=_KB_NOTE),
 "C16": dict(
   technique="same KBuckets.tla specification with the two IP filters; TLC exhaustive with limits 2/2 on the design; scripted TLC simulation prefix (full bucket + pending candidate + table filled to the limit) and random driver on the real table with the crate's own IpTableFilter/IpBucketFilter at 2/10; observed tables checked by TLC (C16.Bucket, C16.Table)",
   text="Exhaustive on the specification with small limits; on the code at the real limits for generated/random behaviours including the pending-promotion corner. Entry-API insertions are excluded when filters are on (documented in the code as bypassing the table filter).",
   note=_KB_NOTE),
 "C15": dict(
   technique="TLA+ spec of the session cache (LruTimeCache.tla) model-checked exhaustively with TLC; TLC goal/simulation behaviours replayed on the real LruTimeCache; implementation traces validated by TLC (monitor formulas NoStale/Bound/EvictLru + strict conformance)",
   text="Exhaustive TLC exploration of the cache specification for 3-4 keys, capacities 1-4, ttl 1-3 with explicit time; the same specification is bound to the code in both directions: TLC-generated behaviours are executed on the real cache and every recorded step is validated by TLC against the specification and the property formulas. Decides the design within the bounds and the code on every generated/driven behaviour; not a proof for all sizes.",
   note="Virtual time by the verif_age hook (ageing stored instants) instead of real sleeping; the handler-level half of C15 (wire behaviour after an idle period) is bound by the handler part once built; u32 keys stand for NodeAddress."),
}
