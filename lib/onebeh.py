#!/usr/bin/env python3
"""onebeh.py <workdir> <step i> <key=value substring of the input at that step>  -> /tmp/one.ndjson and a compact listing"""
import json, sys
d, i, pat = sys.argv[1], int(sys.argv[2]), sys.argv[3]
ev = [json.loads(l) for l in open(d + '/handler-replay.ndjson')]
bs = []; cur = []
for e in ev:
    if e['in']['k'] == 'Reset' and cur: bs.append(cur); cur = []
    cur.append(e)
bs.append(cur)
for b in bs:
    if len(b) > i and pat in json.dumps(b[i]['in']):
        open('/tmp/one.ndjson', 'w').write(''.join(json.dumps(e) + '\n' for e in b))
        for e in b[:i + 2]:
            print(e['i'], json.dumps(e['in']), 'OUT', json.dumps(e['out']), 'NET', [(n['kind'], n['to'], n.get('n'), n.get('key'), n.get('same_as')) for n in e['net']], 'exp', e['exp'])
        break
