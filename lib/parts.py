"""Table of component bindings ("parts") and of properties -> parts.

A part = one specification module family + one harness component:
  spec        MC module (exhaustive model checking, goals, simulation)
  mc          tier -> list of MC cfg files (exhaustive; invariants = the property formulas on the design)
  goals       trap invariants of the MC module whose counterexamples are replayed (coverage goals)
  sim         tier -> dict(cfg, num, depth) for `tlc -simulate` behaviour generation
  drive       tier -> number of operations for the harness's own seeded random driver (0 = none)
  trace       trace-validation module, with its monitor and strict cfgs
  formulas    monitor formula name -> property id
  interesting predicate on a recorded event: does it exercise property-relevant behaviour beyond the happy path
"""


def _lru_interesting(e):
    o = e["op"]["o"]
    if o in ("get", "get_mut", "peek"):
        # a lookup of a stored key that is at or beyond half its ttl, or a miss on a stored key
        return True
    return o in ("purge", "tick")


PARTS = {
    "lru": dict(
        component="lru", spec="MC_Lru.tla",
        mc={"quick": ["MC_Lru.cfg"], "thorough": ["MC_Lru.cfg", "MC_Lru_big.cfg"]},
        goals_cfg="MC_Lru.cfg", goals=["GoalStaleLookup", "GoalEvict", "GoalRefreshKeepsAlive"],
        sim={"quick": dict(cfg="MC_Lru_sim.cfg", num=150, depth=25),
             "thorough": dict(cfg="MC_Lru_sim.cfg", num=3000, depth=40)},
        drive={"quick": 4000, "thorough": 80000},
        trace="Trace_Lru.tla", mon_cfg="Trace_Lru_mon.cfg", strict_cfg="Trace_Lru_strict.cfg",
        formulas={"NoStale": "C15", "Bound": "C15", "EvictLru": "C15"},
        interesting=_lru_interesting,
        assumptions=["virtual time by ageing stored instants (hook verif_age); one model tick = 1000 ms, ttl = n*1000+500 ms",
                     "LruTimeCache<u32,u32> stands for LruTimeCache<NodeAddress,Session> (the type is generic; no key/value-specific code)"],
    ),
}

PROPS = {
    "C15": dict(parts=["lru"], design_ref="5/C15"),
}
