"""Table of component bindings ("parts") and of properties -> parts.

A part = one specification module family + one harness component:
  spec        MC module (exhaustive model checking, goals, simulation)
  mc          tier -> list of MC cfg files (exhaustive; invariants = the property formulas on the design)
  goals       trap invariants of the MC module whose counterexamples are replayed (coverage goals)
  sim         tier -> dict(cfg, num, depth) for `tlc -simulate` behaviour generation
  drive       tier -> number of operations for the harness's own seeded random driver (0 = none)
  trace       trace-validation module, with its monitor and strict cfgs
  formulas    monitor formula name -> property id
  interesting predicate on a recorded event: does it exercise property-relevant behaviour beyond the happy path
"""


def _lru_interesting(e):
    o = e["op"]["o"]
    if o in ("get", "get_mut", "peek"):
        # a lookup of a stored key that is at or beyond half its ttl, or a miss on a stored key
        return True
    return o in ("purge", "tick")


def _kb_interesting(e):
    r = e["ret"].get("v")
    if isinstance(r, str):
        return r.startswith("Failed") or r in ("Pending", "UpdatedPending", "UpdatedAndPromoted", "OkPending")
    return e["op"]["o"] in ("closest", "closest_pred", "nbd") and len(r) >= 2


def _kb_required(events):
    """Vacuity guard on the implementation traces: the behaviours must have reached these situations."""
    seen = set()
    prev_pend = {}
    for e in events:
        r = e["ret"].get("v")
        if isinstance(r, str):
            seen.add(r)
        for b in e["st"]:
            j, nodes, nc, pend = b
            pk = prev_pend.get(j)
            if pk is not None and any(n[0] == pk for n in nodes) and e["op"].get("k") != pk:
                seen.add("promotion-full" if len(nodes) == 16 else "promotion")
            prev_pend[j] = pend[0] if pend else None
        if e["op"]["o"] == "reset":
            prev_pend = {}
    need = ["Pending", "promotion-full", "Failed(TooManyIncoming)", "Failed(TableFilter)", "Failed(BucketFilter)", "Failed(BucketFull)", "UpdatedPending"]
    return [n for n in need if n not in seen]


PARTS = {
    "kb": dict(
        component="kb", spec="MC_KBuckets.tla",
        mc={"quick": [], "thorough": []},       # per property, see PROPS
        goals_cfg=None, goals=[("GoalApplyFilterDrop", "MC_KBuckets_goalip.cfg")],
        sim={"quick": [dict(cfg="MC_KBuckets_sim.cfg", num=40, depth=40), dict(cfg="MC_KBuckets_simip.cfg", num=30, depth=48)],
             "thorough": [dict(cfg="MC_KBuckets_sim.cfg", num=600, depth=60), dict(cfg="MC_KBuckets_simip.cfg", num=400, depth=60)]},
        drive={"quick": 2500, "thorough": 60000},
        trace="Trace_KBuckets.tla", mon_cfg="Trace_KBuckets_mon.cfg", strict_cfg="Trace_KBuckets_strict.cfg",
        formulas={"C07.Cap": "C07", "C07.Place": "C07", "C07.Unique": "C07", "C07.Groups": "C07", "C07.Incoming": "C07",
                  "C07.Order": "C07", "C07.PendTimeout": "C07", "C07.PendEvict": "C07", "C07.PendDiscard": "C07",
                  "C16.Bucket": "C16", "C16.Table": "C16",
                  "C08.Closest": "C08", "C08.ClosestPred": "C08", "C08.ByDistance": "C08"},
        interesting=_kb_interesting, required=_kb_required,
        assumptions=["model keys are embedded into 256-bit ids by bit placement (model bucket j -> real bucket phi(j), phi varied per behaviour over all 256 buckets); XOR order is preserved by construction",
                     "K = 16 is fixed in the code: exhaustive TLC runs use K = 2/3 (design level); the code is bound by TLC simulation walks and random driver runs at K = 16 validated against the same parametric specification",
                     "virtual time by ageing the pending slots' eligibility instants (hook KBucketsTable::verif_age)",
                     "values are real ENRs signed by one key; /24 subnets 10.0.<n>.0; the table is KBucketsTable<NodeId, Enr> with the crate's own IpTableFilter / IpBucketFilter"],
    ),
    "lru": dict(
        component="lru", spec="MC_Lru.tla",
        mc={"quick": ["MC_Lru.cfg"], "thorough": ["MC_Lru.cfg", "MC_Lru_big.cfg"]},
        goals_cfg="MC_Lru.cfg", goals=["GoalStaleLookup", "GoalEvict", "GoalRefreshKeepsAlive"],
        sim={"quick": [dict(cfg="MC_Lru_sim.cfg", num=150, depth=25)],
             "thorough": [dict(cfg="MC_Lru_sim.cfg", num=3000, depth=40)]},
        drive={"quick": 4000, "thorough": 80000},
        trace="Trace_Lru.tla", mon_cfg="Trace_Lru_mon.cfg", strict_cfg="Trace_Lru_strict.cfg",
        formulas={"NoStale": "C15", "Bound": "C15", "EvictLru": "C15"},
        interesting=_lru_interesting,
        assumptions=["virtual time by ageing stored instants (hook verif_age); one model tick = 1000 ms, ttl = n*1000+500 ms",
                     "LruTimeCache<u32,u32> stands for LruTimeCache<NodeAddress,Session> (the type is generic; no key/value-specific code)"],
    ),
}

PROPS = {
    "C07": dict(parts=[dict(name="kb", mc={"quick": ["MC_KBuckets_b.cfg", "MC_KBuckets_4.cfg"],
                                           "thorough": ["MC_KBuckets_b.cfg", "MC_KBuckets_4.cfg", "MC_KBuckets_5.cfg", "MC_KBuckets_mid.cfg"]})]),
    "C08": dict(parts=[dict(name="kb", mc={"quick": ["MC_KBuckets_c08q.cfg"], "thorough": ["MC_KBuckets_c08.cfg"]})]),
    "C15": dict(parts=[dict(name="lru")]),
    "C16": dict(parts=[dict(name="kb", mc={"quick": ["MC_KBuckets_c16.cfg", "MC_KBuckets_c16b.cfg"],
                                           "thorough": ["MC_KBuckets_c16.cfg", "MC_KBuckets_c16b.cfg", "MC_KBuckets_c16c.cfg"]})]),
}
