"""Table of component bindings ("parts") and of properties -> parts.

A part = one specification module family + one harness component:
  spec        MC module (exhaustive model checking, goals, simulation)
  mc          tier -> list of MC cfg files (exhaustive; invariants = the property formulas on the design)
  goals       trap invariants of the MC module whose counterexamples are replayed (coverage goals)
  sim         tier -> dict(cfg, num, depth) for `tlc -simulate` behaviour generation
  drive       tier -> number of operations for the harness's own seeded random driver (0 = none)
  trace       trace-validation module, with its monitor and strict cfgs
  formulas    monitor formula name -> property id
  interesting predicate on a recorded event: does it exercise property-relevant behaviour beyond the happy path
"""


def _lru_interesting(e):
    o = e["op"]["o"]
    if o in ("get", "get_mut", "peek"):
        # a lookup of a stored key that is at or beyond half its ttl, or a miss on a stored key
        return True
    return o in ("purge", "tick")


def _kb_interesting(e):
    r = e["ret"].get("v")
    if isinstance(r, str):
        return r.startswith("Failed") or r in ("Pending", "UpdatedPending", "UpdatedAndPromoted", "OkPending")
    return e["op"]["o"] in ("closest", "closest_pred", "nbd") and len(r) >= 2


def _kb_required(events):
    """Vacuity guard on the implementation traces: the behaviours must have reached these situations."""
    seen = set()
    prev_pend = {}
    for e in events:
        r = e["ret"].get("v")
        if isinstance(r, str):
            seen.add(r)
        for b in e["st"]:
            j, nodes, nc, pend = b
            pk = prev_pend.get(j)
            if pk is not None and any(n[0] == pk for n in nodes) and e["op"].get("k") != pk:
                seen.add("promotion-full" if len(nodes) == 16 else "promotion")
            prev_pend[j] = pend[0] if pend else None
        if e["op"]["o"] == "reset":
            prev_pend = {}
    need = ["Pending", "promotion-full", "Failed(TooManyIncoming)", "Failed(TableFilter)", "Failed(BucketFilter)", "Failed(BucketFull)", "UpdatedPending"]
    return [n for n in need if n not in seen]


def _h_interesting(e):
    k = e["in"]["k"]
    if k in ("PeerWhoAreYou", "PeerHandshake", "Replay", "Reflect", "Mutate", "PeerForget", "AgeSessions"):
        return True
    return any(o["e"] in ("RequestFailed", "Unverifiable", "Expired") for o in e["out"])


def _h_required(events):
    seen = set()
    for e in events:
        for o in e["out"]:
            seen.add(o["e"] + (":" + o.get("dir", o.get("err", "")) if o["e"] in ("Established", "RequestFailed") else ""))
        for n in e["net"]:
            seen.add("net:" + n["kind"])
            if n.get("same_as", "none") != "none":
                seen.add("net:retransmission")
        if "unresolved" not in e["in"]:
            seen.add("in:" + e["in"]["k"])
    need = ["Established:In", "Established:Out", "RequestFailed:Timeout", "RequestFailed:InvalidRemotePacket", "Response", "Request",
            "WhoAreYou", "net:way", "net:hs", "net:msg", "net:rand", "in:Replay", "in:PeerHandshake", "in:PeerWhoAreYou"]
    return [n for n in need if n not in seen]


INJECTING = ("PeerRandom", "PeerWhoAreYou", "PeerHandshake", "PeerMessage", "Replay", "Reflect", "Mutate")
FIELDS_MSG = ["iv", "proto", "version", "flag", "nonce", "authsize", "srcid", "ct", "tag"]


def _mutations(kind, tier, rng, n_inj, idx):
    """The tamper catalogue for one injected datagram (C02): flips in every field, truncations, extensions, splices, redirection."""
    fields = list(FIELDS_MSG) + (["authtail"] if kind == "PeerHandshake" else [])
    if kind == "PeerWhoAreYou":
        fields = ["iv", "proto", "version", "flag", "nonce", "authsize", "authdata"]
    per = 2 if tier == "quick" else 16
    muts = []
    for f in fields:
        bits = {0, 7} if tier == "quick" else {0, 1, 7, 8, 15}
        while len(bits) < per + 2:
            bits.add(rng.randrange(0, 4096))
        muts += [{"op": "flip", "field": f, "bit": b} for b in sorted(bits)]
    muts += [{"op": "cut", "n": n} for n in ([1, 16, 17] if tier == "quick" else [1, 2, 15, 16, 17, 32, 40])]
    muts += [{"op": "trunc", "len": n} for n in ([62, 63] if tier == "quick" else [0, 1, 16, 39, 62, 63, 64, 70, 71])]
    muts += [{"op": "extend", "n": n} for n in ([1] if tier == "quick" else [1, 16, 1000])]
    muts += [{"op": "grow_auth", "n": n} for n in ([1, 24] if tier == "quick" else [1, 2, 4, 24, 100])]
    muts += [{"op": "shrink_auth", "n": n} for n in ([1] if tier == "quick" else [1, 2, 32])]
    muts += [{"op": "redirect"}]
    for other in range(1, n_inj + 1):
        if other != idx:
            muts += [{"op": "splice", "part": "header", "other": other}, {"op": "splice", "part": "body", "other": other}]
    return muts


def handler_mutants(behaviours, tier, seed):
    """Derives tampered behaviours from base behaviours: prefix up to (and including) each injecting step, then one tampered
    variant of one datagram injected so far, presented from the genuine or from another source address."""
    import random
    rng = random.Random(seed)
    out = []
    for b in behaviours:
        inj = []          # (position in b, kind, from)
        for pos, st in enumerate(b):
            if st.get("k") in INJECTING:
                inj.append((pos, st["k"], st.get("from", "a1")))
        for idx, (pos, kind, frm) in enumerate(inj, start=1):
            if kind in ("Replay", "Reflect", "Mutate", "PeerRandom"):
                continue
            muts = _mutations(kind, tier, rng, len(inj), idx)
            if tier == "quick" and len(muts) > 16:
                keep = [x for x in muts if x["op"] in ("grow_auth", "shrink_auth", "redirect", "extend")]
                rest = [x for x in muts if x not in keep]
                muts = keep + rng.sample(rest, 12)
            for mu in muts:
                ends = [len(b)] if tier == "quick" and rng.random() < 0.5 else [pos + 1, len(b)]
                for end in ends:
                    n_before = sum(1 for (p2, _, _) in inj if p2 < end)
                    if mu.get("other", 0) > n_before:
                        continue
                    for src in ([frm] if (tier == "quick" and rng.random() < 0.7) else [frm, "aA"]):
                        out.append(b[:end] + [{"k": "Mutate", "idx": idx, "from": src, "mut": mu}, {"k": "Quiesce"}])
                # the tampered variant delivered *instead of* the genuine datagram (a tampered handshake must not consume the challenge usefully)
                if kind in ("PeerHandshake", "PeerMessage") and mu["op"] != "splice" and (tier != "quick" or mu["op"] in ("grow_auth", "shrink_auth", "extend") or rng.random() < 0.5):
                    st = dict(b[pos])
                    st["mut"] = mu
                    out.append(b[:pos] + [st] + b[pos:] + [{"k": "Quiesce"}])
        # the genuine datagrams presented from another source address
        for idx, (pos, kind, frm) in enumerate(inj, start=1):
            if kind in ("PeerMessage", "PeerHandshake"):
                out.append(b + [{"k": "Replay", "idx": idx, "from": "aA"}, {"k": "Quiesce"}])
    # the thorough catalogue (every bit of every header / auth-data / tag region of every datagram of 25 behaviours) has ~10^5 members:
    # a seeded sample of it is executed per run
    cap = 600 if tier == "quick" else 12000
    if len(out) > cap:
        out = rng.sample(out, cap)
    return out


def _q_required(events):
    seen = set()
    for e in events:
        seen.add(e["st"][0])
        if e["op"]["o"] == "result" and len(e["ret"][1]) >= 2:
            seen.add("result>=2")
        if any(p[1] == "Unresponsive" for p in e["st"][2]):
            seen.add("Unresponsive")
        if e["ret"][0] == "WaitingAtCapacity":
            seen.add("AtCapacity")
    return [n for n in ["Stalled", "Finished", "Unresponsive", "AtCapacity", "result>=2"] if n not in seen]


def _svc_common(formulas, **kw):
    d = dict(component="svc", trace="Trace_Svc.tla", mon_cfg="Trace_Svc_mon.cfg", strict_cfg="Trace_Svc_strict.cfg",
             drive={"quick": 0, "thorough": 0}, goals=[], goals_cfg=None,
             interesting=lambda e: e["op"]["o"] not in ("reset", "add_enr"),
             formulas=formulas,
             assumptions=["the real Service runs with a scripted handler (hook Discv5::verif_start_scripted): the harness is the transport, the Handler is not part of these runs",
                          "peers have fixed keys; node ids are hashes of keys, so log2 distances between peers are those of the fixed pool (mostly 252..256); lookup targets are free",
                          "tokio clock paused; the ban list is process-global and reset at every behaviour start"])
    d.update(kw)
    return d


PARTS = {
    "svc_talk": _svc_common({"C20.TwoResponses": "C20", "C20.NotAnsweredOnce": "C20", "C20.SpuriousResponse": "C20", "C20.AfterShutdown": "C20"},
        spec="MC_Talk.tla", mc={"quick": ["MC_Talk.cfg"], "thorough": ["MC_Talk.cfg"]}, crash_formula="C20.AfterShutdown",
        goals_cfg="MC_Talk.cfg", goals=["GoalDropAfterShutdown", "GoalRespondAfterShutdown"],
        sim={"quick": [dict(cfg="MC_Talk_sim.cfg", num=60, depth=14)], "thorough": [dict(cfg="MC_Talk_sim.cfg", num=1500, depth=20)]},
        required=lambda events: [n for n in ["talk_respond", "talk_drop", "shutdown"] if not any(e["op"]["o"] == n for e in events)]),
    "svc_nodes": _svc_common({"C11.UnrequestedAccepted": "C11", "C11.RequestedDropped": "C11", "C11.HonestBanned": "C11", "C11.NotBanned": "C11"},
        spec="MC_Nodes.tla", mc={"quick": ["MC_Nodes.cfg"], "thorough": ["MC_Nodes.cfg"]},
        sim={"quick": [dict(cfg="MC_Nodes_sim.cfg", num=300, depth=9)], "thorough": [dict(cfg="MC_Nodes_sim.cfg", num=6000, depth=22)]},
        fixed_behaviours=[
            # adjacent ids: request [1, 2, 0]; the honest second node answers with its own record (distance 0)
            [{"o": "reset", "mode": "ip4"}, {"o": "add_enr", "rec": "p2:1:v4"}, {"o": "lookup", "target": {"xor": ["p2", 0]}}, {"o": "honest_reply", "req": "r1", "table": ["p3:1:v4", "p4:1:v4"]}],
            # the lookup target is the peer itself: request [0]; answered with a foreign record
            [{"o": "reset", "mode": "ip4"}, {"o": "add_enr", "rec": "p2:1:v4"}, {"o": "lookup", "target": {"peer": "p2"}}, {"o": "response_in", "req": "r1", "body": {"t": "nodes", "total": 1, "recs": ["p5:1:v4"]}}],
            # 15 packets are the most a responder can make the node collect
            [{"o": "reset", "mode": "ip4"}, {"o": "add_enr", "rec": "p2:1:v4"}, {"o": "lookup", "target": {"xor": ["p2", 254]}}]
            + [{"o": "response_in", "req": "r1", "body": {"t": "nodes", "total": 99, "recs": ["p%d:1:v4" % (3 + i)]}} for i in range(17)],
        ],
        required=lambda events: [n for n in ["ban", "honest_reply", "discovered"] if n not in
                                 {("ban" if e["obs"]["bans"]["nodes"] else "") for e in events} | {e["op"]["o"] for e in events}
                                 | {("discovered" if any(x["e"] == "Discovered" for x in e["obs"]["ev"]) else "") for e in events}]),
    "svc_table": _svc_common({"C12.Admit": "C12", "C12.OnlyBySession": "C12", "C12.ReplaceRule": "C12", "C12.Provenance": "C12"},
        spec="MC_Table.tla", mc={"quick": ["MC_Table_ip4.cfg", "MC_Table_ip6.cfg", "MC_Table_dual.cfg"], "thorough": ["MC_Table_ip4.cfg", "MC_Table_ip6.cfg", "MC_Table_dual.cfg"]},
        sim={"quick": [dict(cfg="MC_Table_sim_ip4.cfg", num=40, depth=30), dict(cfg="MC_Table_sim_ip6.cfg", num=25, depth=30), dict(cfg="MC_Table_sim_dual.cfg", num=25, depth=30)],
             "thorough": [dict(cfg="MC_Table_sim_ip4.cfg", num=800, depth=50), dict(cfg="MC_Table_sim_ip6.cfg", num=500, depth=50), dict(cfg="MC_Table_sim_dual.cfg", num=500, depth=50)]},
        fixed_behaviours=[
            [{"o": "reset", "mode": "ip4", "filter": "nomark"}, {"o": "established", "rec": "p1:1:mark", "dir": "Out"}, {"o": "established", "rec": "p2:1:mark", "dir": "In"}],
            # a node waiting in a pending slot: a NODES response carries another record of it with the same sequence number; the
            # node is promoted when its time has come (virtual time), with the record its session reported
            [{"o": "reset", "mode": "ip4"}] + [{"o": "add_enr", "rec": "p%d:1:v4" % k} for k in (2, 3, 4, 5, 6, 8, 9, 10, 12, 13, 14, 15, 16, 21, 22, 23)]
            + [{"o": "established", "rec": "p24:1:v4", "dir": "Out"}, {"o": "lookup", "target": {"peer": "p24"}},
               {"o": "response_in", "req": "r2", "body": {"t": "nodes", "total": 1, "recs": ["p24:1:big"]}},
               {"o": "age", "ms": 61000}, {"o": "poke"}, {"o": "add_enr", "rec": "p2:1:v4"}],
            [{"o": "reset", "mode": "ip4", "filter": "nomark"}, {"o": "add_enr", "rec": "p1:1:v4"}, {"o": "add_enr", "rec": "p2:1:v4"}, {"o": "lookup", "target": {"xor": ["p2", 255]}},
             {"o": "response_in", "req": "@p2", "body": {"t": "nodes", "total": 1, "recs": ["p1:2:v4", "p3:1:v4"]}}, {"o": "response_in", "req": "@p1", "body": {"t": "nodes", "total": 1, "recs": ["p2:1:both", "p2:2:mark"]}}],
        ],
        required=lambda events: [n for n in ["replaced", "rejected-add", "removed"] if n not in
                                 {("rejected-add" if e["op"].get("ret", "").startswith("err") else "") for e in events}
                                 | {("replaced" if e["op"]["o"] in ("response_in",) and i > 0 and any(r[0] in {x[0] for x in events[i - 1]["obs"]["table"]} and r[1] not in {x[1] for x in events[i - 1]["obs"]["table"]} for r in e["obs"]["table"]) else "") for i, e in enumerate(events)}
                                 | {("removed" if i > 0 and len(e["obs"]["table"]) < len(events[i - 1]["obs"]["table"]) and e["op"]["o"] != "reset" else "") for i, e in enumerate(events)}]),
    # lookups of the running service (callback, requests emitted, result) - the service-level clauses of C09 and C10
    "svc_lookup": _svc_common({"C09.CallbackTwice": "C09", "C09.Overdue": "C09", "C09.NoCallback": "C09", "C09.SamePeerTwice": "C09", "C09.InFlight": "C09", "C09.ResultLost": "C09",
                               "C10.Duplicate": "C10", "C10.TooMany": "C10", "C10.Order": "C10", "C10.PredicateMismatch": "C10",
                               "C10.NotAnswered": "C10", "C10.Incomplete": "C10"},
        spec="MC_Lookup.tla", mc={"quick": [], "thorough": []},
        sim={"quick": [dict(cfg="MC_Lookup_sim_ip4.cfg", num=60, depth=50), dict(cfg="MC_Lookup_sim_dual.cfg", num=40, depth=50)],
             "thorough": [dict(cfg="MC_Lookup_sim_ip4.cfg", num=800, depth=50), dict(cfg="MC_Lookup_sim_dual.cfg", num=500, depth=50)]},
        required=lambda events: [n for n in ["callback", "nonempty-result", "honest_reply", "late-timeout"] if n not in
                                 {("callback" if e["obs"]["done"] else "") for e in events}
                                 | {("nonempty-result" if any(d.get("res") for d in e["obs"]["done"]) else "") for e in events}
                                 | {e["op"]["o"] for e in events if "unresolved" not in e["op"]}
                                 | {("late-timeout" if e["op"]["o"] == "age" and e["obs"]["done"] else "") for e in events}]),
    "svc_vote": _svc_common({"C17.NotByPong": "C17", "C17.BelowMinimum": "C17", "C17.NoClearMajority": "C17", "C17.SeqNotIncreased": "C17",
                             "C17.InvalidSignature": "C17", "C17.NotAnnounced": "C17"},
        spec="MC_IpVote.tla", mc={"quick": ["MC_IpVote.cfg"], "thorough": ["MC_IpVote.cfg", "MC_IpVote_5.cfg"]},
        fixed_behaviours=[
            # a clear majority that emerges on a vote for *another* address: X4 3, Y4 2 (no winner) -> a Y4 voter moves to Z4 -> X4 wins
            [{"o": "reset", "mode": "ip4", "vote_min": 2, "vote_dur": 120}] + [{"o": "established", "rec": "p%d:1:v4" % k, "dir": "Out"} for k in range(1, 7)]
            + [{"o": "response_in", "req": "@p%d" % k, "body": {"t": "pong", "seq": 1, "sock": a}} for k, a in ((1, "X4"), (2, "Y4"), (3, "X4"), (4, "Y4"), (5, "X4"))]
            + [{"o": "advance", "ms": 36001000}, {"o": "response_in", "req": "@p2", "body": {"t": "pong", "seq": 1, "sock": "Z4"}}],
            # three addresses: leader X4 (3 votes), rival Y4 (2, within the margin), straggler Z4 (1): no clear majority, whatever order the
            # votes are tallied in - the tally runs again (in another order of the hash map) at every further PONG
            [{"o": "reset", "mode": "ip4", "vote_min": 2, "vote_dur": 3600}] + [{"o": "established", "rec": "p%d:1:v4" % k, "dir": "Out"} for k in range(1, 8)]
            + [{"o": "response_in", "req": "@p%d" % k, "body": {"t": "pong", "seq": 1, "sock": a}} for k, a in ((1, "X4"), (2, "Y4"), (3, "X4"), (4, "Y4"), (5, "X4"), (6, "Z4"))]
            + sum([[{"o": "advance", "ms": 36001000}, {"o": "response_in", "req": "@p6", "body": {"t": "pong", "seq": 1, "sock": "Z4"}},
                    {"o": "response_in", "req": "@p4", "body": {"t": "pong", "seq": 1, "sock": "Y4"}}] for _ in range(6)], []),
            # the application's event stream overflows once (120 events in one step, it holds 100); a later address change is still announced
            [{"o": "reset", "mode": "ip4", "vote_min": 2, "vote_dur": 120}] + [{"o": "established", "rec": "p%d:1:v4" % k, "dir": "Out"} for k in range(1, 4)]
            + [{"o": "flood", "n": 120}, {"o": "poke"}]
            + [{"o": "response_in", "req": "@p%d" % k, "body": {"t": "pong", "seq": 1, "sock": "X4"}} for k in (1, 2)],
        ],
        sim={"quick": [dict(cfg="MC_IpVote_sim_ip4.cfg", num=120, depth=40), dict(cfg="MC_IpVote_sim_dual.cfg", num=60, depth=40)],
             "thorough": [dict(cfg="MC_IpVote_sim_ip4.cfg", num=2500, depth=70), dict(cfg="MC_IpVote_sim_dual.cfg", num=1200, depth=70)]},
        required=lambda events: [n for n in ["SocketUpdated", "second-update"] if n not in
                                 {("SocketUpdated" if any(x["e"] == "SocketUpdated" for x in e["obs"]["ev"]) else "") for e in events}
                                 | {("second-update" if e["obs"]["local"]["seq"] >= 3 else "") for e in events}]),
    "svc_serve": _svc_common({"C14.NoAnswer": "C14", "C14.WrongIdOrPeer": "C14", "C14.Total": "C14", "C14.TooBig": "C14", "C14.OwnRecord": "C14",
                              "C14.ForeignRecord": "C14", "C14.Missing": "C14", "C14.TooManyOrDuplicate": "C14", "C14.Pong": "C14"},
        spec="MC_Serve.tla", mc={"quick": ["MC_Serve.cfg"], "thorough": ["MC_Serve_9.cfg", "MC_Serve_17.cfg"]},
        sim={"quick": [dict(cfg="MC_Serve_sim.cfg", num=120, depth=40)], "thorough": [dict(cfg="MC_Serve_sim.cfg", num=600, depth=60)]},
        required=lambda events: [n for n in ["multi-packet", "own", "ping"] if n not in
                                 {("multi-packet" if any(h["k"] == "Response" and h["body"].get("total", 1) > 1 for h in e["obs"]["hin"]) else "") for e in events}
                                 | {("own" if any(h["k"] == "Response" and any(r.startswith("L:") for r in h["body"].get("recs", [])) for h in e["obs"]["hin"]) else "") for e in events}
                                 | {("ping" if any(h["k"] == "Response" and h["body"]["t"] == "pong" for h in e["obs"]["hin"]) else "") for e in events}]),
    "query": dict(
        component="query", spec="MC_Query.tla",
        mc={"quick": ["MC_Query.cfg"], "thorough": ["MC_Query.cfg", "MC_Query_b.cfg"]},
        goals_cfg="MC_Query_goal.cfg", goals=["GoalStalled", "GoalLateSuccess", "GoalFinishFull", ("GoalShortAfterBigAnswer", "MC_Query_goalbig.cfg")],
        sim={"quick": [dict(cfg="MC_Query_sim.cfg", num=150, depth=40)], "thorough": [dict(cfg="MC_Query_sim.cfg", num=3000, depth=60)]},
        drive={"quick": 4000, "thorough": 100000},
        trace="Trace_Query.tla", mon_cfg="Trace_Query_mon.cfg", strict_cfg="Trace_Query_strict.cfg",
        formulas={"C09.ContactTwice": "C09", "C09.Parallelism": "C09", "Panic": "C09",
                  "C10.OrderOrSize": "C10", "C10.NotAnswered": "C10", "C10.PredicateMismatch": "C10", "C10.Incomplete": "C10"},
        interesting=lambda e: e["op"]["o"] in ("on_success", "on_failure", "drain", "result") or e["ret"][0] in ("WaitingAtCapacity",),
        required=_q_required,
        assumptions=["the state machines are driven through the QueryFacade hook with explicit time (FindNodeQuery::next(now)); a model peer p is the node id with numeric value p and the target is the all-zero id, so XOR distance = p",
                     "the pool-level query timeout (QueryPool::poll reads Instant::now) and the exactly-once hand-over of the result by the service are not bound by this part",
                     "'requests in flight' is the lookup's own notion: contacted peers without a reported outcome whose peer timeout has not elapsed; the bound is the parallelism until the lookup has stalled and num_results afterwards (DESIGN 5/C09)"],
    ),
    "handler_mut": dict(
        component="handler", spec="MC_Handler.tla",
        mc={"quick": ["MC_Handler_init.cfg"], "thorough": ["MC_Handler_init.cfg", "MC_Handler_tiny.cfg"]},
        goals_cfg="MC_Handler_goal.cfg",
        goals=["GoalBaseResponder", "GoalBaseResponderRec", "GoalBaseInitiator", "GoalBaseRekeyed", ("GoalBaseAwaiting", "MC_Handler_goalnoenr.cfg")],
        sim={"quick": [], "thorough": [dict(cfg="MC_Handler_sim.cfg", num=20, depth=30)]},
        derive=handler_mutants,
        drive={"quick": 0, "thorough": 0},
        trace="Trace_Handler.tla", mon_cfg="Trace_Handler_mon.cfg", strict_cfg=None,
        formulas={"C02.Delivered": "C02", "C02.MutantAccepted": "C02", "C02.WrongSource": "C02"},
        interesting=lambda e: e["in"]["k"] in ("Mutate", "Replay"),
        required=lambda events: [] if any(e["in"]["k"] == "Mutate" and e["in"].get("changed") for e in events) else ["Mutate"],
        assumptions=["AEAD integrity is assumed, not proved: what is decided is that the code authenticates the received IV || header || auth-data, looks the session up by (claimed id, source address) and never delivers on a failure path",
                     "tampering is done in the unmasked domain by the harness's own AES-CTR code (harness/src/mutate.rs); strict conformance is not checked on tampered behaviours (monitor pass only)"],
    ),
    "handler": dict(
        component="handler", spec="MC_Handler.tla",
        mc={"quick": ["MC_Handler_init.cfg"], "thorough": ["MC_Handler_init.cfg", "MC_Handler_tiny.cfg", "MC_Handler_atkq.cfg"]},
        goals_cfg="MC_Handler_goal.cfg",
        goals=["GoalSecondWay", "GoalNoRecordHs", "GoalRekeyPending", ("GoalRekeyReleasesPending", "MC_Handler_goalenr.cfg"), "GoalEnrlessDone", "GoalTimeoutAll", "GoalPendingAfterExpiredChallenge", "GoalBadSigKeepsChallenge", "GoalBadThenGoodHs", "GoalWayAfterReplay", ("GoalSendAfterRotateBack", "MC_Handler_goalrot.cfg"),
               ("GoalForgedHs", "MC_Handler_goalatk.cfg"), ("GoalReplayedHs", "MC_Handler_goalatk.cfg"), ("GoalJunkSigHs", "MC_Handler_goalatk.cfg"), ("GoalForgedHs", "MC_Handler_goaled.cfg"), ("GoalJunkSigHs", "MC_Handler_goaled.cfg"), ("GoalReplayUnverifiableHs", "MC_Handler_goalsib.cfg"), ("GoalForeignWayOnHs", "MC_Handler_goalsib.cfg"), ("GoalReplayMsgFromSibling", "MC_Handler_goalsib.cfg"), "GoalWayTwiceWithSession", ("GoalZeroKeyAfterRekey", "MC_Handler_goalzero.cfg"), ("GoalForeignEnrAnswer", "MC_Handler_goalnoenr.cfg"), ("GoalLateEnrAnswer", "MC_Handler_goalnoenr.cfg"), ("GoalSecondRequestEnrless", "MC_Handler_goalnoenr.cfg"), ("GoalAnswerFirstOfTwoEnrless", "MC_Handler_goalnoenr.cfg")],
        sim={"quick": [dict(cfg="MC_Handler_sim.cfg", num=160, depth=40)], "thorough": [dict(cfg="MC_Handler_sim.cfg", num=1000, depth=60)]},
        fixed_behaviours=[
            # more outcomes at once than the event channel to the application holds (50): 56 requests to a silent peer, nobody reads events
            # until all of them have timed out - every one still gets its failure report
            [{"k": "Reset", "retries": 1, "cap": 4, "sess_ttl": 3}] + [{"k": "AppRequest", "peer": "p1", "addr": "a1", "rid": "r%d" % i, "enr": True, "body": "ping"} for i in range(1, 57)],
        ],
        append_ops=[{"k": "Quiesce"}],
        drive={"quick": 0, "thorough": 0},
        trace="Trace_Handler.tla", mon_cfg="Trace_Handler_mon.cfg", strict_cfg="Trace_Handler_strict.cfg",
        formulas={"C01.Attribution": "C01", "C01.KeyDisclosed": "C01", "C02.Delivered": "C02", "C02.MutantAccepted": "C02", "C02.WrongSource": "C02",
                  "C03.ReplayAccepted": "C03", "C03.NoChallenge": "C03", "C03.WrongSource": "C03", "C03.TwoHandshakes": "C03", "C03.ActedOnForeign": "C03",
                  "C04.TwoOutcomes": "C04", "C04.EventAfterOutcome": "C04", "C04.NoOutcome": "C04", "C04.TimeoutUnjustified": "C04", "C04.WireBound": "C04",
                  "C13.Count": "C13", "C13.LeftOver": "C13", "C13.ReleasedEarly": "C13", "C12.SingleStack": "C12", "C12.EstablishedForeign": "C12", "C15.Capacity": "C15", "C15.StaleSessionUsed": "C15",
                  "C19.NonceReuse": "C19", "C19.IdNonceReuse": "C19"},
        interesting=_h_interesting, required=_h_required,
        assumptions=["the real Handler::start() loop runs on a paused tokio clock over a virtual socket (hook H1); socket/recv.rs and send.rs (UDP I/O, packet filter call order) are bypassed",
                     "remote parties are played by the harness with real keys through the crate's own Session/Packet primitives: an error shared by both ends of a primitive is invisible",
                     "symbolic cryptography in the specification (signatures, KDF and AEAD are perfect)",
                     "session ageing by the verif_age hook (std::time) independent of the request-timeout clock (tokio)"],
    ),
    "kb": dict(
        component="kb", spec="MC_KBuckets.tla",
        mc={"quick": [], "thorough": []},       # per property, see PROPS
        goals_cfg=None, goals=[("GoalApplyFilterDrop", "MC_KBuckets_goalip.cfg"), ("GoalPendingVsConnectedHead", "MC_KBuckets_goalhead.cfg"), ("GoalPendingVsIncomingLimit", "MC_KBuckets_goalinc.cfg"), ("GoalDisconnectedPendingApplied", "MC_KBuckets_goalpdis.cfg"), ("GoalPendingUpdateFiltered", "MC_KBuckets_goalipupd.cfg"), ("GoalPendingReinserted", "MC_KBuckets_goalpre.cfg"), ("GoalPendingReinsertedFiltered", "MC_KBuckets_goalpreip.cfg")],
        sim={"quick": [dict(cfg="MC_KBuckets_sim.cfg", num=40, depth=40), dict(cfg="MC_KBuckets_simip.cfg", num=30, depth=48)],
             "thorough": [dict(cfg="MC_KBuckets_sim.cfg", num=600, depth=60), dict(cfg="MC_KBuckets_simip.cfg", num=400, depth=60)]},
        drive={"quick": 2500, "thorough": 60000},
        trace="Trace_KBuckets.tla", mon_cfg="Trace_KBuckets_mon.cfg", strict_cfg="Trace_KBuckets_strict.cfg",
        formulas={"C07.Cap": "C07", "C07.Place": "C07", "C07.Unique": "C07", "C07.Groups": "C07", "C07.Incoming": "C07",
                  "C07.Order": "C07", "C07.PendTimeout": "C07", "C07.PendEvict": "C07", "C07.PendDiscard": "C07",
                  "C16.Bucket": "C16", "C16.Table": "C16",
                  "C08.Closest": "C08", "C08.ClosestPred": "C08", "C08.ByDistance": "C08"},
        interesting=_kb_interesting, required=_kb_required,
        assumptions=["model keys are embedded into 256-bit ids by bit placement (model bucket j -> real bucket phi(j), phi varied per behaviour over all 256 buckets); XOR order is preserved by construction",
                     "K = 16 is fixed in the code: exhaustive TLC runs use K = 2/3 (design level); the code is bound by TLC simulation walks and random driver runs at K = 16 validated against the same parametric specification",
                     "virtual time by ageing the pending slots' eligibility instants (hook KBucketsTable::verif_age)",
                     "values are real ENRs signed by one key; /24 subnets 10.0.<n>.0; the table is KBucketsTable<NodeId, Enr> with the crate's own IpTableFilter / IpBucketFilter"],
    ),
    "lru": dict(
        component="lru", spec="MC_Lru.tla",
        mc={"quick": ["MC_Lru.cfg"], "thorough": ["MC_Lru.cfg", "MC_Lru_big.cfg"]},
        goals_cfg="MC_Lru.cfg", goals=["GoalStaleLookup", "GoalEvict", "GoalRefreshKeepsAlive"],
        sim={"quick": [dict(cfg="MC_Lru_sim.cfg", num=150, depth=25)],
             "thorough": [dict(cfg="MC_Lru_sim.cfg", num=3000, depth=40)]},
        drive={"quick": 4000, "thorough": 80000},
        trace="Trace_Lru.tla", mon_cfg="Trace_Lru_mon.cfg", strict_cfg="Trace_Lru_strict.cfg",
        formulas={"NoStale": "C15", "Bound": "C15", "EvictLru": "C15"},
        interesting=_lru_interesting,
        assumptions=["virtual time by ageing stored instants (hook verif_age); one model tick = 700 ms, ttl = n*700+350 ms (no whole number of seconds on purpose)",
                     "LruTimeCache<u32,u32> stands for LruTimeCache<NodeAddress,Session> (the type is generic; no key/value-specific code)"],
    ),
}

PROPS = {
    "C07": dict(parts=[dict(name="kb", mc={"quick": ["MC_KBuckets_b.cfg", "MC_KBuckets_4.cfg"],
                                           "thorough": ["MC_KBuckets_b.cfg", "MC_KBuckets_4.cfg", "MC_KBuckets_5.cfg", "MC_KBuckets_mid.cfg"]})]),
    "C08": dict(parts=[dict(name="kb", mc={"quick": ["MC_KBuckets_c08q.cfg"], "thorough": ["MC_KBuckets_c08.cfg"]})]),
    "C01": dict(parts=[dict(name="handler", mc={"quick": ["MC_Handler_atkq.cfg"], "thorough": ["MC_Handler_atkq.cfg", "MC_Handler_tiny.cfg"]})]),
    # tampered datagrams (handler_mut) and the attacker / faulty-peer behaviours (handler): C02.Delivered is judged on both
    "C02": dict(parts=[dict(name="handler_mut"), dict(name="handler", mc={"quick": [], "thorough": ["MC_Handler_atkq.cfg"]})]),
    "C03": dict(parts=[dict(name="handler", mc={"quick": ["MC_Handler_atkq.cfg"], "thorough": ["MC_Handler_atkq.cfg", "MC_Handler_tiny.cfg"]})]),
    "C04": dict(parts=[dict(name="handler")]),
    "C09": dict(parts=[dict(name="query"), dict(name="svc_lookup")]),
    "C10": dict(parts=[dict(name="query"), dict(name="svc_lookup")]),
    "C13": dict(parts=[dict(name="handler")]),
    "C19": dict(parts=[dict(name="handler")]),
    "C11": dict(parts=[dict(name="svc_nodes")]),
    "C12": dict(parts=[dict(name="svc_table"), dict(name="handler", mc={"quick": [], "thorough": ["MC_Handler_tiny.cfg"]})]),
    "C14": dict(parts=[dict(name="svc_serve")]),
    "C17": dict(parts=[dict(name="svc_vote")]),
    "C20": dict(parts=[dict(name="svc_talk")]),
    "C15": dict(parts=[dict(name="lru"), dict(name="handler", mc={"quick": [], "thorough": ["MC_Handler_time.cfg"]})]),
    "C16": dict(parts=[dict(name="kb", mc={"quick": ["MC_KBuckets_c16.cfg", "MC_KBuckets_c16b.cfg"],
                                           "thorough": ["MC_KBuckets_c16.cfg", "MC_KBuckets_c16b.cfg", "MC_KBuckets_c16c.cfg"]})]),
}


# ------------------------------------------------------------------------------------------------ codecs (C05, C06)
import codec_gen

_CODEC_ASSUME = [
    "TLA+ decides the case analysis and generates the cases (every abstract case of the specification is replayed, k seeded concrete "
    "variants each); byte-level fidelity (AES-128-CTR masking, RLP, the discv5.1 layout) is judged against the harness's hand-written "
    "reference encoders (harness/src/codec); totality is established on the generated classes and on seeded random / mutated strings, "
    "not on all byte strings: model-based test generation, not proof",
    "records are produced and re-encoded by the enr crate (an opaque RLP item to the packet / message codecs); invalid records are "
    "derived from valid ones by bit flips, truncation and type confusion",
]
PARTS["pcodec"] = dict(
    component="pcodec", spec="MC_PacketCodec.tla", crash_formula="C05.Panic",
    mc={"quick": ["MC_PacketCodec.cfg"], "thorough": ["MC_PacketCodec.cfg"]},
    goals_cfg=None, goals=[], sim={"quick": [], "thorough": []},
    generate=codec_gen.behaviours("MC_PacketCodec_emit.cfg", {"quick": 8, "thorough": 64}),
    drive={"quick": 8000, "thorough": 400000},
    trace="Trace_PacketCodec.tla", mon_cfg="Trace_PacketCodec_mon.cfg", strict_cfg="Trace_PacketCodec_strict.cfg",
    formulas={"C05." + f: "C05" for f in ("Panic", "TooShort", "TooLong", "OtherId", "ProtocolId", "Version", "Kind", "AuthSize", "WhoAreYouBody",
                                          "Rejected", "Fields", "AuthData", "Layout", "RoundTrip")},
    interesting=codec_gen.interesting, required=codec_gen.packet_required, measure=codec_gen.measure,
    assumptions=_CODEC_ASSUME + [
        "the codec is observed at the byte-level facade discv5::verif::{packet_decode, PacketView::encode} (= Packet::decode / Packet::encode with "
        "the default protocol identity); socket/recv.rs and send.rs only pass the datagram and the local / destination id to these functions",
        "'masked for another node id' = an id that differs in its first 16 bytes: the masking key of the wire specification is dest-id[..16], so "
        "ids sharing those bytes are indistinguishable to any conforming codec",
    ],
)
PARTS["rcodec"] = dict(
    component="rcodec", spec="MC_RpcCodec.tla", crash_formula="C06.Panic",
    mc={"quick": ["MC_RpcCodec.cfg"], "thorough": ["MC_RpcCodec.cfg"]},
    goals_cfg=None, goals=[], sim={"quick": [], "thorough": []},
    generate=codec_gen.behaviours("MC_RpcCodec_emit.cfg", {"quick": 8, "thorough": 64}),
    drive={"quick": 8000, "thorough": 400000},
    trace="Trace_RpcCodec.tla", mon_cfg="Trace_RpcCodec_mon.cfg", strict_cfg="Trace_RpcCodec_strict.cfg",
    formulas={"C06." + f: "C06" for f in ("Panic", "Missing", "Trailing", "IdLength", "Distance", "Port", "IpLength", "Record", "InnerListLength",
                                          "Rejected", "Fields", "Layout", "RoundTrip")},
    interesting=codec_gen.interesting, required=codec_gen.rpc_required, measure=codec_gen.measure,
    assumptions=_CODEC_ASSUME + [
        "the codec is observed at the facade re-export discv5::verif::Message (rpc::Message::encode / decode)",
        "IPv4-mapped (::ffff:a.b.c.d) and IPv4-compatible (::a.b.c.d) addresses are expected to decode to a.b.c.d (by design); for ::1 the "
        "address value is not judged",
    ],
)
PROPS["C05"] = dict(parts=[dict(name="pcodec")])
PROPS["C06"] = dict(parts=[dict(name="rcodec")])
# ---------------------------------------------------------------------------------------------- C18 (packet filter)
def _lim_required(events):
    """Vacuity guard, limiter level: refusals, an on-time request after a refusal, a prune that removes a key."""
    seen, refused, prev_st = set(), set(), []
    for e in events:
        o = e["op"]["o"]
        if o == "reset":
            refused, prev_st = set(), []
            continue
        if o == "allows":
            seen.add(e["ret"][0])
            if e["ret"][0] == "TooSoon":
                refused.add(e["op"]["k"])
            elif e["ret"][0] == "Ok" and e["op"]["k"] in refused:
                seen.add("Ok-after-TooSoon")
        if o == "prune":
            seen.add("prune-removes" if len(e["st"]) < len(prev_st) else "prune-keeps" if e["st"] else "prune")
        prev_st = e["st"]
    return [n for n in ["Ok", "TooSoon", "TooLarge", "Ok-after-TooSoon", "prune-removes", "prune-keeps"] if n not in seen]


def _flt_flags(e):
    op, pre = e["op"], e["pre"]
    return dict(pIp=op["ip"] in pre["pi"], bIp=any(b[0] == op["ip"] for b in pre["bi"]),
                pNode=op["node"] in pre["pn"], bNode=any(b[0] == op["node"] for b in pre["bn"]),
                ipBanned=any(b[0] == op["ip"] for b in e["post"]["bi"]), nodeBanned=any(b[0] == op["node"] for b in e["post"]["bn"]))


def _flt_interesting(e):
    if e["op"]["o"] != "pkt":
        return e["op"]["o"] not in ("tick", "reset")
    return "drop" in e["ret"] or any(_flt_flags(e)[k] for k in ("pIp", "bIp", "pNode", "bNode"))


def _flt_required(events):
    """Vacuity guard, filter level: every kind of verdict the property speaks about must have been observed."""
    seen, prev = set(), None
    for e in events:
        o = e["op"]["o"]
        if o == "pkt":
            fl = _flt_flags(e)
            s1, s2 = e["ret"]
            if s1 == "drop" and not fl["bIp"]:
                seen.add("ip-excess-ban" if fl["ipBanned"] else "total-refusal")
            if s1 == "drop" and fl["bIp"] and not fl["pIp"]:
                seen.add("banned-ip-drop")
            if s1 == "pass" and fl["bIp"] and fl["pIp"]:
                seen.add("permit-over-ban-ip")
            if s2 == "drop" and not fl["bNode"]:
                seen.add("node-excess-ban" if fl["nodeBanned"] else "node-refusal-noban")
            if s2 == "drop" and fl["bNode"] and not fl["pNode"]:
                seen.add("banned-node-drop")
            if s2 == "pass" and fl["bNode"] and fl["pNode"]:
                seen.add("permit-over-ban-node")
            if s1 == "pass" and s2 == "pass":
                seen.add("through")
        if o == "prune" and prev is not None:
            n0 = sum(len(prev["st"][k]) for k in ("tot", "ip", "node"))
            n1 = sum(len(e["st"][k]) for k in ("tot", "ip", "node"))
            seen.add("prune-removes" if n1 < n0 else "prune-keeps" if n1 else "prune")
        prev = e
    need = ["through", "ip-excess-ban", "total-refusal", "banned-ip-drop", "permit-over-ban-ip", "node-excess-ban", "banned-node-drop",
            "permit-over-ban-node", "prune-removes", "prune-keeps"]
    return [n for n in need if n not in seen]


_C18_FORMULAS = {f: "C18" for f in ("C18.Window", "C18.WindowIp", "C18.WindowTotal", "C18.WindowNode", "C18.RefusedWithinQuota",
                                    "C18.PruneNeutral", "C18.BanPermit", "C18.ExcessNotBanned", "C18.BanTooShort")}
_C18_ASSUME = ["quotas whose period is divisible by the burst (t = tau / max_tokens exact; with nanosecond periods the rounding of other quotas is 1e-9 relative and not observable)",
               "one model tick = 10 s; arrivals, prunes and list operations happen at whole ticks, several per tick"]
PARTS["limiter"] = dict(
    component="limiter", spec="MC_Limiter.tla",
    mc={"quick": ["MC_Limiter.cfg"], "thorough": ["MC_Limiter.cfg", "MC_Limiter_b.cfg", "MC_Limiter_big.cfg"]},
    goals_cfg="MC_Limiter_goal.cfg", goals=["GoalRefusedThenOk", "GoalPrunedKeyBack", "GoalPruneKeepsDebt", "GoalTooLarge"],
    sim={"quick": [dict(cfg="MC_Limiter_sim.cfg", num=120, depth=40)], "thorough": [dict(cfg="MC_Limiter_sim.cfg", num=3000, depth=60)]},
    drive={"quick": 4000, "thorough": 100000},
    trace="Trace_Limiter.tla", mon_cfg="Trace_Limiter_mon.cfg", strict_cfg="Trace_Limiter_strict.cfg",
    formulas=_C18_FORMULAS,
    interesting=lambda e: e["ret"][0] != "Ok" or e["op"]["o"] == "prune",
    required=_lim_required,
    assumptions=_C18_ASSUME + ["limiter level: the GCRA Limiter<u64> is called through the LimiterFacade hook with explicit time (exact); Limiter is generic, u64 keys stand for IpAddr / NodeId / ()",
                               "prune is called with a limit <= the current time (RateLimiter::prune passes the current time)"],
)
PARTS["filter"] = dict(
    component="filter", spec="MC_Filter.tla",
    mc={"quick": ["MC_Filter.cfg", "MC_Filter_bl.cfg"], "thorough": ["MC_Filter.cfg", "MC_Filter_bl.cfg", "MC_Filter_b.cfg", "MC_Filter_t.cfg"]},
    goals_cfg="MC_Filter_goal.cfg",
    goals=["GoalIpBanThenDrop", "GoalTotalRefusal", "GoalPrunedKeyUsed", ("GoalNodeBanThenDrop", "MC_Filter_goalnode.cfg"), ("GoalNodeRefill", "MC_Filter_goalnode.cfg"),
           ("GoalPermitOverBan", "MC_Filter_goalbl.cfg"), ("GoalUnbanThenRefused", "MC_Filter_goalbl.cfg")],
    sim={"quick": [dict(cfg="MC_Filter_sim.cfg", num=60, depth=45), dict(cfg="MC_Filter_simq.cfg", num=60, depth=45), dict(cfg="MC_Filter_simt.cfg", num=20, depth=40)],
         "thorough": [dict(cfg="MC_Filter_sim.cfg", num=1500, depth=60), dict(cfg="MC_Filter_simq.cfg", num=1500, depth=60), dict(cfg="MC_Filter_simt.cfg", num=400, depth=60)]},
    drive={"quick": 4000, "thorough": 100000},
    trace="Trace_Filter.tla", mon_cfg="Trace_Filter_mon.cfg", strict_cfg="Trace_Filter_strict.cfg",
    formulas=_C18_FORMULAS,
    interesting=_flt_interesting, required=_flt_required,
    assumptions=_C18_ASSUME + ["filter level: the real Filter (FilterFacade hook) with the crate's RateLimiter built by RateLimiterBuilder; virtual time by the RateLimiter::verif_age hook, the real microseconds a behaviour takes never reach a tick (behaviours slower than half a tick would be re-run)",
                               "a datagram takes initial_pass and, if it passed and names a node id, final_pass (the order of RecvHandler::handle_inbound; the real handle_inbound is bound by the recv part)",
                               "the process-global PERMIT_BAN_LIST is driven through the public Discv5::{ban_ip, permit_ip, ban_node, permit_node, *_remove} API and read with the ban_list_snapshot hook; it is reset at every behaviour start and the checks using it are serialised within one harness process",
                               "max_nodes_per_ip / max_bans_per_ip are off (None) wherever 'within every applicable quota => never refused' is judged; configurations with them on are checked for conformance of the transcription and the remaining formulas",
                               "the copy of the filter whose limiter is never pruned judges each datagram against the same ban list (restored before the pruned copy judges it)",
                               "expiry of bans is the handler's business (unban_nodes_check), not the filter's: the filter treats every listed entry as banned; 'banned for at least the configured duration' is judged on the recorded expiry instant"],
)


def _recv_flags(e):
    op, pre = e["op"], e["pre"]
    nd = op["node"] if op["kind"] == "msg" else 0
    return dict(sol=op["ip"] in e["exp"], pIp=op["ip"] in pre["pi"], bIp=any(b[0] == op["ip"] for b in pre["bi"]),
                pNode=nd in pre["pn"], bNode=any(b[0] == nd for b in pre["bn"]),
                ipBanned=any(b[0] == op["ip"] for b in e["post"]["bi"]), nodeBanned=any(b[0] == nd for b in e["post"]["bn"]))


def _recv_interesting(e):
    if e["op"]["o"] != "dgram":
        return e["op"]["o"] not in ("tick", "reset")
    fl = _recv_flags(e)
    return e["ret"][0] != "inbound" or e["op"]["kind"] != "msg" or fl["sol"] or fl["pIp"] or fl["pNode"]


def _recv_required(events):
    seen = set()
    for e in events:
        if e["op"]["o"] != "dgram":
            continue
        fl, out, kind = _recv_flags(e), e["ret"][0], e["op"]["kind"]
        if fl["sol"]:
            if out != "drop" and ((fl["bIp"] and not fl["pIp"]) or (fl["bNode"] and not fl["pNode"])):
                seen.add("solicited-bypasses-ban")
            continue
        seen.add(kind + ":" + out)
        if out == "drop" and not fl["bIp"] and fl["ipBanned"]:
            seen.add("ip-excess-ban")
        if out == "drop" and not fl["bNode"] and fl["nodeBanned"]:
            seen.add("node-excess-ban")
        if out == "drop" and not fl["bIp"] and not fl["bNode"] and not fl["ipBanned"] and not fl["nodeBanned"]:
            seen.add("total-refusal")
        if out == "drop" and fl["bNode"] and not fl["pNode"] and not fl["bIp"]:
            seen.add("banned-node-drop")
        if out != "drop" and fl["bIp"] and fl["pIp"]:
            seen.add("permit-over-ban-ip")
    need = ["msg:inbound", "msg:drop", "way:inbound", "way:drop", "junk:unrecognized", "junk:drop", "solicited-bypasses-ban", "ip-excess-ban",
            "node-excess-ban", "total-refusal", "banned-node-drop", "permit-over-ban-ip"]
    return [n for n in need if n not in seen]


PARTS["recv"] = dict(
    component="recv", spec="MC_Recv.tla",
    mc={"quick": ["MC_Recv.cfg"], "thorough": ["MC_Recv.cfg", "MC_Recv_b.cfg"]},
    goals_cfg="MC_Recv_goal.cfg", goals=["GoalSolicitedBypass", "GoalNodeStageOnlyMsg", "GoalSolicitedMsg"],
    sim={"quick": [dict(cfg="MC_Recv_sim.cfg", num=80, depth=45)], "thorough": [dict(cfg="MC_Recv_sim.cfg", num=2000, depth=60)]},
    drive={"quick": 3000, "thorough": 80000},
    trace="Trace_Recv.tla", mon_cfg="Trace_Recv_mon.cfg", strict_cfg="Trace_Recv_strict.cfg",
    formulas=_C18_FORMULAS,
    interesting=_recv_interesting, required=_recv_required,
    assumptions=_C18_ASSUME + ["receive-task level: the real RecvHandler::handle_inbound (expected-response exemption, Filter::initial_pass, Packet::decode, Filter::final_pass, forwarding to the packet handler) "
                               "is fed with real datagrams (random-data message packets naming a node id, WHOAREYOU packets, undecodable bytes) through the RecvFacade hook; the handler owns a loopback UDP socket that is never read; "
                               "the receive loop itself (recv_from, the 30 s prune interval) is not executed: prune is called explicitly",
                               "only what reaches the packet handler is observable at this level (drop / inbound / unrecognized frame), not the stage that dropped a datagram: a drop must be justified by the IP stage (unless the IP is permitted) or by the node stage (a named, not permitted node id)",
                               "a source a response is expected from (filter_expected_responses) is solicited: nothing is demanded of its datagrams here"],
)
# the handler's periodic unban check (every 300 s): part of "banned for at least the configured duration"
PARTS["handler_unban"] = dict(
    component="handler", spec="MC_Handler.tla", mc={"quick": [], "thorough": []}, goals_cfg=None, goals=[],
    sim={"quick": [], "thorough": []}, drive={"quick": 0, "thorough": 0},
    fixed_behaviours=[[{"k": "Reset", "retries": 1, "cap": 4, "sess_ttl": 3}, {"k": "Bans"}, {"k": "Advance", "ticks": 3010}, {"k": "Advance", "ticks": 3010}, {"k": "Quiesce"}]],
    trace="Trace_Handler.tla", mon_cfg="Trace_Handler_mon.cfg", strict_cfg=None,
    formulas={"C18.UnbanTimer": "C18"},
    interesting=lambda e: e["in"]["k"] in ("Bans", "Advance"),
    required=lambda events: [] if any("ip:perm" in e.get("bans", []) for e in events) and any(e["in"]["k"] == "Advance" and "ip:past" not in e.get("bans", []) for e in events) else ["unban check ran"],
    assumptions=["the real Handler::start loop on a paused tokio clock: its 300 s unban interval fires on Advance; ban instants are std::time instants set relative to now"],
)
PROPS["C18"] = dict(parts=[dict(name="limiter"), dict(name="filter"), dict(name="recv"), dict(name="handler_unban")])
