"""Generic pipeline behind /verif/bin/check.

   build harness -> TLC exhaustive (design) -> behaviours (goals + simulation) -> replay on the real
   code / seeded random driver -> TLC trace validation (monitor pass = property oracle, strict pass =
   conformance) -> classify -> evidence -> exit code.

Exit codes: 0 property held on everything explored (KNOWN-FINDING lines possible), 1 VIOLATION,
2 tool error (never a VIOLATION line).
"""
import json, os, re, shutil, subprocess, sys, time, hashlib

ROOT = os.path.dirname(os.path.dirname(os.path.abspath(__file__)))
SPEC = os.path.join(ROOT, "spec")
# (VERIF_HARNESS: a scratch copy of the harness bound to a scratch copy of the crate - used by lib/seedcheck.sh only; the
#  registered commands always build /verif/harness against /repo)
HARNESS = os.environ.get("VERIF_HARNESS") or os.path.join(ROOT, "harness")
OUT = os.path.join(ROOT, "out")
EVID = os.path.join(ROOT, "evidence")
VH = os.path.join(HARNESS, "target", "debug", "vh")
JAVA_TRACE_OPTS = "-Xss1g -Dtlc2.tool.queue.IStateQueue=StateDeque"


class ToolError(Exception):
    pass


class CrashError(ToolError):
    """The harness process died from a signal while executing the code under test (abort in a destructor, allocation failure, ...)."""
    def __init__(self, msg, rc):
        ToolError.__init__(self, msg)
        self.rc = rc


def log(*a):
    print(*a, flush=True)


def sh(cmd, timeout, env=None, cwd=None):
    e = dict(os.environ)
    if env:
        e.update(env)
    try:
        p = subprocess.run(cmd, cwd=cwd, env=e, stdout=subprocess.PIPE, stderr=subprocess.STDOUT,
                           timeout=timeout, text=True, errors="replace")
    except subprocess.TimeoutExpired as ex:
        raise ToolError("timeout after %ss: %s" % (timeout, " ".join(cmd[:6])))
    return p.returncode, p.stdout


def build_harness():
    t = time.time()
    env = {"CARGO_NET_OFFLINE": "true"}
    rc, out = sh(["cargo", "build", "--offline"], 1500, env=env, cwd=HARNESS)
    if rc != 0:
        sys.stdout.write(out[-4000:])
        raise ToolError("harness build failed (cargo build in %s)" % HARNESS)
    return time.time() - t


# ----------------------------------------------------------------------------------------- TLC
def _tlc_cmd(module, cfg, workers, mem, metadir, extra):
    return ["tlc", "-workers", str(workers), "-metadir", metadir, "-cleanup", "-noGenerateSpecTE",
            "-config", cfg] + extra + [module]


def tlc_run(module, cfg, workdir, *, workers=4, mem="3g", timeout=600, extra=(), env=None, java_opts=""):
    metadir = os.path.join(workdir, "tlc-%s-%d" % (os.path.basename(cfg), os.getpid()))
    e = {"JAVA_TOOL_OPTIONS": ("-Xmx%s -Xss512m %s" % (mem, java_opts)).strip()}
    if env:
        e.update(env)
    t = time.time()
    rc, out = sh(_tlc_cmd(module, cfg, workers, mem, metadir, list(extra)), timeout, env=e, cwd=SPEC)
    shutil.rmtree(metadir, ignore_errors=True)
    return rc, out, time.time() - t


def parse_mc(out):
    r = {"generated": 0, "distinct": 0, "depth": 0, "error": None, "zero_actions": [], "actions": {}}
    m = re.search(r"(\d+) states generated, (\d+) distinct states found", out)
    if m:
        r["generated"], r["distinct"] = int(m.group(1)), int(m.group(2))
    m = re.search(r"depth of the complete state graph search is (\d+)", out)
    if m:
        r["depth"] = int(m.group(1))
    m = re.search(r"Error: Invariant (\S+) is violated", out)
    if m:
        r["error"] = "invariant " + m.group(1)
    elif "Error: Action property" in out or "Temporal properties were violated" in out:
        r["error"] = "property"
    elif "Error:" in out and "Model checking completed. No error" not in out:
        mm = re.search(r"Error: (.*)", out)
        r["error"] = "tlc: " + (mm.group(1) if mm else "?")
    # coverage: lines like  <Next line 20, col 1 to line 24 ... of module X>: 123:456
    for m in re.finditer(r"^<(\w+) line [^>]*>: (\d+):(\d+)", out, re.M):
        name, dist, tot = m.group(1), int(m.group(2)), int(m.group(3))
        a = r["actions"].setdefault(name, [0, 0])
        a[0] += dist
        a[1] += tot
    r["zero_actions"] = sorted(n for n, (d, t) in r["actions"].items() if t == 0 and n != "Init")
    return r


def tlc_mc(module, cfg, workdir, *, workers=4, mem="3g", timeout=600, coverage=False):
    """Exhaustive model checking of the design. Returns parsed result + raw output."""
    extra = ["-coverage", "1"] if coverage else []
    dump = os.path.join(workdir, "cex-%s.json" % os.path.basename(cfg))
    extra += ["-dumpTrace", "json", dump]
    rc, out, wall = tlc_run(module, cfg, workdir, workers=workers, mem=mem, timeout=timeout, extra=extra)
    r = parse_mc(out)
    r["wall_s"] = round(wall, 1)
    r["cfg"] = os.path.basename(cfg)
    r["cex"] = dump if (r["error"] and os.path.exists(dump)) else None
    if r["error"] is None and "Model checking completed. No error" not in out:
        sys.stdout.write(out[-3000:])
        raise ToolError("TLC did not complete on %s" % cfg)
    return r, out


def hist_from_dump(path, var="hist"):
    """The behaviour (history variable of the last state) of a -dumpTrace json counterexample."""
    d = json.load(open(path))
    st = d["counterexample"]["state"] if "counterexample" in d else d["state"]
    last = st[-1]
    if isinstance(last, list):
        last = last[1]
    return last[var]


def tlc_goal(module, cfg_base, goal, workdir, *, workers=4, timeout=400, var="hist"):
    """Reach a coverage goal: `goal` is a trap invariant (~Goal); TLC's shortest counterexample is a
    behaviour reaching it. An unreachable goal is a tool error (vacuity guard)."""
    cfg = os.path.join(workdir, "goal-%s.cfg" % goal)
    base = open(os.path.join(SPEC, cfg_base)).read()
    base = re.sub(r"^(INVARIANTS?|PROPERT(Y|IES)|POSTCONDITION)\b.*$", "", base, flags=re.M)
    open(cfg, "w").write(base + "\nINVARIANT %s\n" % goal)
    dump = os.path.join(workdir, "goal-%s.json" % goal)
    if os.path.exists(dump):
        os.remove(dump)
    try:
        rc, out, wall = tlc_run(module, cfg, workdir, workers=workers, timeout=min(timeout, 150),
                                extra=["-dumpTrace", "json", dump])
    except ToolError as ex:
        # seen three times in seed sweeps: a goal search that normally takes 2 s hangs with several workers (always the same goal,
        # GoalApplyFilterDrop, under machine load); one retry with a single worker
        log("  goal %s: %s - retrying with one worker" % (goal, ex))
        if os.path.exists(dump):
            os.remove(dump)
        rc, out, wall = tlc_run(module, cfg, workdir, workers=1, timeout=timeout, extra=["-dumpTrace", "json", dump])
    if not os.path.exists(dump) or ("Invariant %s is violated" % goal) not in out:
        sys.stdout.write(out[-2000:])
        raise ToolError("coverage goal %s of %s not reached (vacuous model or goal)" % (goal, module))
    return hist_from_dump(dump, var)


def tlc_simulate(module, cfg, workdir, *, num, depth, seed, timeout=300):
    """Random walks of the specification; the Emit invariant prints the history of every state beyond
    DEPTH, the last print of a walk (the longest extension) is the walk's behaviour."""
    base = open(cfg).read()
    # walks of models whose environment runs out of budget end early: print every extension beyond a quarter of the depth
    base = re.sub(r"DEPTH\s*=\s*\d+", "DEPTH = %d" % max(3, depth // 4), base)
    tmp = os.path.join(workdir, "sim-" + os.path.basename(cfg))
    open(tmp, "w").write(base)
    rc, out, wall = tlc_run(module, tmp, workdir, workers=1, timeout=max(timeout, 300 + 2 * num),      # (thorough handler walks: ~0.3 s each, more under load)
                            extra=["-simulate", "num=%d" % num, "-depth", str(depth), "-seed", str(seed)])
    if re.search(r"^Error: ", out, re.M):
        sys.stdout.write(out[-3000:])
        raise ToolError("simulation of %s (%s) ended with a TLC error" % (module, os.path.basename(cfg)))
    behaviours = []
    for m in re.finditer(r'<<"REPLAY", "(.*)">>', out):
        b = json.loads(m.group(1).encode().decode("unicode_escape"))
        if behaviours and len(b) > len(behaviours[-1]) and b[:len(behaviours[-1])] == behaviours[-1]:
            behaviours[-1] = b
        else:
            behaviours.append(b)
    if not behaviours:
        sys.stdout.write(out[-3000:])
        raise ToolError("simulation of %s produced no behaviours" % module)
    # keep maximal behaviours only (TLC also prints the siblings of the successor a walk continues with), and bound their number
    keys = sorted({json.dumps(b, sort_keys=True)[:-1] for b in behaviours})
    maximal = [k for i, k in enumerate(keys) if not (i + 1 < len(keys) and keys[i + 1].startswith(k))]
    behaviours = [json.loads(k + "]") for k in maximal]
    if len(behaviours) > 2 * num:
        import random
        behaviours = random.Random(seed).sample(behaviours, 2 * num)
    return behaviours


# ------------------------------------------------------------------------------------- harness
def vh(args, timeout=900):
    rc, out = sh([VH] + [str(a) for a in args], timeout)
    if rc is not None and rc < 0:
        raise CrashError("vh %s died from signal %d" % (" ".join(map(str, args[:3])), -rc), rc)
    if rc != 0:
        sys.stdout.write(out[-3000:])
        raise ToolError("vh %s failed (rc=%s)" % (" ".join(map(str, args[:3])), rc))
    return out


def vh_replay_isolating_crashes(component, behaviours, bf, tf, workdir, max_crashes=3):
    """vh replay; if the process dies, the behaviour that kills it is found by bisection, set aside, and the rest is replayed.
    Returns the list of (behaviour, signal) that crashed the process."""
    crashed = []
    cur = list(behaviours)
    while True:
        write_behaviours(bf, cur)
        try:
            vh(["replay", component, bf, tf])
            return crashed
        except CrashError as ex:
            if len(crashed) >= max_crashes:
                raise
            lo, hi = 0, len(cur)          # invariant: cur[lo:hi] contains a crashing behaviour
            probe = os.path.join(workdir, "crash-probe.ndjson")
            while hi - lo > 1:
                mid = (lo + hi) // 2
                write_behaviours(probe, cur[lo:mid])
                try:
                    vh(["replay", component, probe, probe + ".out"])
                    lo = mid
                except CrashError:
                    hi = mid
            crashed.append((cur[lo], -ex.rc))
            cur = cur[:lo] + cur[lo + 1:]


def write_behaviours(path, behaviours):
    with open(path, "w") as f:
        for b in behaviours:
            f.write(json.dumps(b) + "\n")


def read_ndjson(path):
    return [json.loads(l) for l in open(path) if l.strip()]


# ---------------------------------------------------------------------------- trace validation
def tlc_trace(module, cfg, trace, workdir, *, timeout=900, mem="4g"):
    """Validates an implementation trace. Returns dict(accepted, reject_at, reject_event, viols)."""
    rc, out, wall = tlc_run(module, os.path.join(SPEC, cfg), workdir, workers=1, mem=mem, timeout=timeout,
                            env={"TRACE": trace}, java_opts=JAVA_TRACE_OPTS)
    r = {"accepted": False, "reject_at": None, "viols": [], "wall_s": round(wall, 1), "states": 0}
    m = re.search(r"(\d+) states generated, (\d+) distinct states found", out)
    if m:
        r["states"] = int(m.group(2))
    m = re.search(r'<<"VIOLS", "(.*)">>', out)
    if m:
        r["viols"] = json.loads(m.group(1).encode().decode("unicode_escape"))
    m = re.search(r'<<\s*"REJECT",\s*(\d+),', out)
    if m:
        r["reject_at"] = int(m.group(1))
    elif "Model checking completed. No error has been found" in out:
        r["accepted"] = True
    else:
        sys.stdout.write(out[-4000:])
        raise ToolError("trace validation with %s/%s failed to run" % (module, cfg))
    return r


def split_trace(path, max_events=20000):
    """Cuts a long trace at behaviour boundaries into files of about max_events events (trace validation is linear in the trace but
    TLC keeps every state: very long traces are validated piecewise)."""
    events = read_ndjson(path)
    if len(events) <= max_events:
        return [path]
    starts = split_behaviours(events) + [len(events)]
    out, cur_start, n = [], 0, 0
    for i in range(len(starts) - 1):
        if starts[i + 1] - cur_start > max_events and starts[i] > cur_start:
            out.append((cur_start, starts[i]))
            cur_start = starts[i]
    out.append((cur_start, len(events)))
    files = []
    for k, (a, b) in enumerate(out):
        f = "%s.part%d" % (path, k + 1)
        with open(f, "w") as fh:
            for e in events[a:b]:
                fh.write(json.dumps(e) + "\n")
        files.append(f)
    return files


def split_behaviours(events):
    """Indices (0-based) at which a new behaviour starts (reset events)."""
    return [i for i, e in enumerate(events) if e.get("op", {}).get("o") == "reset"
            or e.get("in", {}).get("k") == "Reset"]


def behaviour_of(events, idx):
    """The slice of events of the behaviour containing 0-based index idx."""
    starts = split_behaviours(events) or [0]
    s = max([x for x in starts if x <= idx] or [0])
    e = min([x for x in starts if x > idx] or [len(events)])
    return s, e


# ------------------------------------------------------------------------------------ findings
def load_findings():
    p = os.path.join(ROOT, "known_findings.json")
    if not os.path.exists(p):
        return {"known": [], "fixed": []}
    return json.load(open(p))


def is_known(findings, prop, signature):
    for k in findings.get("known", []):
        if k["property"] == prop and re.fullmatch(k["signature"], signature):
            return k
    return None


# ------------------------------------------------------------------------------------ evidence
def write_evidence(prop, tier, seed, coverage, assumptions, wall, violations, level="model_checking"):
    os.makedirs(EVID, exist_ok=True)
    ev = {"property_id": prop, "tier": tier, "seed": int(seed), "level": level, "coverage": coverage,
          "assumptions": assumptions, "wall_s": round(wall, 1), "violations": int(violations)}
    tmp = os.path.join(EVID, ".%s.json.%d" % (prop, os.getpid()))
    json.dump(ev, open(tmp, "w"), indent=1)
    os.replace(tmp, os.path.join(EVID, prop + ".json"))


def save_replay(prop, seed, n, payload):
    d = os.path.join(OUT, "replays")
    os.makedirs(d, exist_ok=True)
    p = os.path.join(d, "%s-s%s-%d.json" % (prop, seed, n))
    json.dump(payload, open(p, "w"), indent=1)
    return p
