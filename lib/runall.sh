#!/bin/bash
# runall.sh [tier] : every check once on the current tree (evidence files are rewritten); prints one line per check
cd "$(dirname "$0")/.."
tier=${1:-quick}
for p in $(python3 -c "import json;print(' '.join(c['property_id'] for c in json.load(open('MANIFEST.json'))['checks']))"); do
  out=$(bin/check $p --tier $tier 2>&1); rc=$?
  echo "$p rc=$rc $(echo "$out" | tail -1 | cut -c1-200)"
  [ $rc -ne 0 ] && echo "$out" | grep -E "VIOLATION|formula|TOOL" | cut -c1-300 | head -5
done
