#!/bin/bash
# seedcheck.sh [seed dir names...]  — applies each seeded change to a SCRATCH worktree of /repo (/tmp/vseed/repo, with a scratch copy
# of the harness bound to it), runs the quick check of its property there and expects exit 1 with a VIOLATION line. /repo itself is
# not touched, so this can run while other checks run against /repo. `seedcheck.sh --clean` removes the scratch area.
cd /verif
S=${VSEED_DIR:-/tmp/vseed}
if [ "$1" = "--clean" ]; then git -C /repo worktree remove --force $S/repo 2>/dev/null; rm -rf $S; git -C /repo worktree prune; exit 0; fi
mkdir -p $S
if [ ! -d $S/repo ]; then git -C /repo worktree add -q --detach $S/repo HEAD || exit 2; fi
git -C $S/repo checkout -q --detach $(git -C /repo rev-parse HEAD) && git -C $S/repo checkout -q -- . || exit 2
mkdir -p $S/harness; rsync -a --delete --exclude target /verif/harness/ $S/harness/
sed -i "s#path = \"/repo\"#path = \"$S/repo\"#" $S/harness/Cargo.toml
seeds=${@:-$(ls seeded)}
for s in $seeds; do
  p=${s%%-*}
  git -C $S/repo apply /verif/seeded/$s/patch.diff || { echo "$s: patch does not apply"; continue; }
  out=$(VERIF_HARNESS=$S/harness bin/check $p --tier quick 2>&1); rc=$?
  git -C $S/repo checkout -q -- .
  f=$(echo "$out" | grep -m1 -o "formula [^ ]*" )
  if [ $rc -eq 1 ] && echo "$out" | grep -q "^VIOLATION property=$p "; then echo "$s: caught ($f)"; else echo "$s: MISSED rc=$rc"; fi
  git -C /verif checkout -- evidence/$p.json 2>/dev/null      # the evidence of a run on a changed tree is not kept
done
