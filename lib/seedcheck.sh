#!/bin/bash
# seedcheck.sh [seed dir names...]  — applies each seeded change to /repo, runs the quick check of its property, expects exit 1 with a
# VIOLATION line, and restores /repo (never run while /repo has uncommitted changes of its own).
cd /verif
if [ -n "$(git -C /repo status --porcelain)" ]; then echo "/repo is not clean"; exit 2; fi
seeds=${@:-$(ls seeded)}
for s in $seeds; do
  p=${s%%-*}
  git -C /repo apply /verif/seeded/$s/patch.diff || { echo "$s: patch does not apply"; continue; }
  out=$(bin/check $p --tier quick 2>&1); rc=$?
  git -C /repo checkout -- .
  f=$(echo "$out" | grep -m1 -o "formula [^ ]*" )
  if [ $rc -eq 1 ] && echo "$out" | grep -q "^VIOLATION property=$p "; then echo "$s: caught ($f)"; else echo "$s: MISSED rc=$rc"; fi
  git -C /verif checkout -- evidence/$p.json 2>/dev/null      # the evidence of a run on a changed tree is not kept
done
