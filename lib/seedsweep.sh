#!/bin/bash
# seedsweep.sh <first> <last> [props...] : runs the quick checks with VERIF_SEED=first..last on the current tree and
# reports every run that does not exit 0 (false-alarm hunting before a check is registered).
cd "$(dirname "$0")/.."
a=$1; b=$2; shift 2
props=${@:-$(python3 -c "import json;print(' '.join(c['property_id'] for c in json.load(open('MANIFEST.json'))['checks']))")}
bad=0
for p in $props; do
  for s in $(seq $a $b); do
    out=$(VERIF_SEED=$s bin/check $p 2>&1); rc=$?
    if [ $rc -ne 0 ]; then bad=$((bad+1)); echo "== $p seed $s rc=$rc"; echo "$out" | grep "VIOLATION\|formula\|TOOL" | cut -c1-300 | head -6; fi
  done
  echo "$p done"
done
echo "sweep finished: $bad bad runs"
