#!/usr/bin/env python3
import json,sys
d=json.load(open(sys.argv[1]))
st=d["counterexample"]["state"] if "counterexample" in d else d["state"]
def bk(b):
    ns=" ".join("%s%s%s"%(n["key"],n["st"],n["dr"]) for n in b["nodes"])
    p=b["pend"]; ps="" if not p["on"] else " P[%s%s%s @%s]"%(p["node"]["key"],p["node"]["st"],p["node"]["dr"],p["at"])
    return "[%s|f%s%s]"%(ns,b["fcp"],ps)
for s in st:
    if isinstance(s,list): s=s[1]
    tb=s.get("tb")
    tbs=""
    if isinstance(tb,dict): tbs=" ".join("%s:%s"%(k,bk(v)) for k,v in sorted(tb.items()))
    elif isinstance(tb,list): tbs=" ".join("%d:%s"%(i,bk(v)) for i,v in enumerate(tb))
    print(json.dumps(s.get("lastop")), "->", json.dumps(s.get("lastret")), "|", tbs, "| stamp", json.dumps(s.get("stamp")))
