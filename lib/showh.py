#!/usr/bin/env python3
import json,sys
d=json.load(open(sys.argv[1]))
st=d["counterexample"]["state"] if "counterexample" in d else d["state"]
for s in st:
    if isinstance(s,list): s=s[1]
    h=s["h"]
    print("IN ",json.dumps(s["last"]["in"]))
    print("   ev",json.dumps(h["ev"])); print("   tx",json.dumps([{k:v for k,v in t.items() if k in("to","kind","n","key","body","re","idn","echo")} for t in h["tx"]]))
    print("   active",[(c["rid"],c["n"],c["kind"],c["key"],"hs" if c["hs"] else "","init" if c["init"] else "",c["dl"]) for c in h["active"]],"pend",[p["rid"] for p in h["pend"]],"chal",[(c["addr"]["sock"],c["idn"]) for c in h["chal"]],"sess",[(x["addr"]["sock"],x["cur"],x["old"],x["aw"],x["age"]) for x in h["sessq"]],"exp",[(x["sock"],x["n"]) for x in h["exp"]], "outc",s.get("outc"))
