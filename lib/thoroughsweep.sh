#!/bin/bash
# thoroughsweep.sh [props...] : runs the thorough tier of every (or the named) check once and reports exit codes and wall times
cd "$(dirname "$0")/.."
props=${@:-$(python3 -c "import json;print(' '.join(c['property_id'] for c in json.load(open('MANIFEST.json'))['checks']))")}
for p in $props; do
  t0=$(date +%s); out=$(bin/check $p --tier thorough 2>&1); rc=$?; t1=$(date +%s)
  echo "== $p rc=$rc $((t1-t0))s"; echo "$out" | grep -E "thorough:|VIOLATION|formula|TOOL|DIVERGENCE" | cut -c1-260 | head -8
done
