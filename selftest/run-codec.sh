#!/bin/sh
# Sensitivity self-test of the codec checks (C05, C06): applies each mutant patch selftest/C0x-n.diff to the crate the
# harness is built against, runs the check, expects "VIOLATION" and exit code 1, and restores the crate.
#   usage: selftest/run-codec.sh [repo-dir] [patch-name ...]       (run from the verification root)
REPO=${1:-$(sed -n 's/^discv5 = { path = "\(.*\)" }/\1/p' harness/Cargo.toml)}
[ $# -gt 0 ] && shift
LIST=${*:-$(ls selftest/C05-*.diff selftest/C06-*.diff | sed 's,selftest/,,; s,\.diff,,')}
(cd "$REPO" && git diff --quiet) || { echo "$REPO has uncommitted changes"; exit 2; }
fail=0
for m in $LIST; do
  prop=${m%%-*}
  (cd "$REPO" && git apply "$OLDPWD/selftest/$m.diff") || { echo "$m: patch does not apply"; fail=1; continue; }
  out=$(VERIF_SEED=${VERIF_SEED:-1} bin/check "$prop" 2>&1); rc=$?
  (cd "$REPO" && git checkout -- .)
  sigs=$(echo "$out" | sed -n 's/^  formula \([^ ]*\) violated.*/\1/p' | sort -u | tr '\n' ' ')
  div=$(echo "$out" | grep -c '^DIVERGENCE')
  echo "$m: exit=$rc violations: ${sigs:-none} divergences=$div"
  [ "$rc" = 1 ] || { fail=1; echo "$out" | tail -5; }
done
exit $fail
