#!/bin/sh
# usage: selftest/run_mutants.sh <prop> <repo> [n ...]   applies selftest/<prop>-<n>.diff to <repo>, runs bin/check <prop>, reverts
cd "$(dirname "$0")/.." || exit 2
prop=$1; repo=$2; shift 2
ns="$*"; [ -z "$ns" ] && ns=$(ls selftest/$prop-*.diff | sed "s/.*$prop-//; s/.diff//" | sort -n)
for n in $ns; do
  git -C "$repo" apply "$PWD/selftest/$prop-$n.diff" || { echo "mutant $n: patch does not apply"; continue; }
  bin/check $prop > out/selftest-$prop-$n.log 2>&1; rc=$?
  git -C "$repo" apply -R "$PWD/selftest/$prop-$n.diff"
  echo "mutant $prop-$n: exit $rc  $(grep -c '^VIOLATION' out/selftest-$prop-$n.log) VIOLATION line(s): $(grep '^  formula' out/selftest-$prop-$n.log | sed 's/  formula \([^ ]*\) .*/\1/' | tr '\n' ' ')  $(grep -c '^DIVERGENCE' out/selftest-$prop-$n.log) divergence(s) $(grep '^TOOL-ERROR' out/selftest-$prop-$n.log)"
done
