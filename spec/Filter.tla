------------------------------- MODULE Filter -------------------------------
(* Specification of the inbound packet filter and its rate limiter:                               *)
(*   src/socket/filter/rate_limiter.rs   Limiter (GCRA), RateLimiter                                *)
(*   src/socket/filter/mod.rs            Filter::{initial_pass, final_pass, prune_limiter}          *)
(*   src/permit_ban.rs, src/discv5.rs    the process-global PERMIT_BAN_LIST and its public API      *)
(*   src/socket/recv.rs                  handle_inbound: initial_pass, then (packet with a source   *)
(*                                       id) final_pass                                             *)
(*                                                                                                  *)
(* Time is an integer number of ticks since the limiter was created (`init_time.elapsed()`; the     *)
(* harness passes virtual time with the `verif_age` hook / the explicit-time API of `Limiter`).     *)
(* ASSUMPTION: a quota's period is divisible by its burst (`t = tau / max_tokens` is exact; with    *)
(* nanosecond periods the rounding error of other quotas is 10^-9 relative).                        *)
(*                                                                                                  *)
(* Maps (FnvHashMap / HashMap / LruCache) are sets of <<key, value>> pairs (canonical form).        *)
(* Every public operation is a case of a pure step function returning the new state and the         *)
(* returned value: LStep for `Limiter`, FStep for `Filter` + ban list.                              *)
EXTENDS Integers, Sequences, FiniteSets

Has(m, k)    == \E p \in m : p[1] = k
Get(m, k)    == (CHOOSE p \in m : p[1] = k)[2]
Put(m, k, v) == {p \in m : p[1] # k} \cup {<<k, v>>}
Del(m, k)    == {p \in m : p[1] # k}
MaxOf(a, b)  == IF a > b THEN a ELSE b

\* ------------------------------------------------------------------ Limiter<Key> (GCRA)
\* Quota [b |-> max_tokens, p |-> replenish_all_every];  b = 0 stands for "not configured"
NoQ == [b |-> 0, p |-> 0]
HasQ(q) == q.b > 0
\* fn from_quota: tau = period, t = tau / max_tokens, no keys
LimNew(q) == IF HasQ(q) THEN [tau |-> q.p, t |-> q.p \div q.b, tat |-> {}] ELSE [tau |-> 0, t |-> 0, tat |-> {}]
HasLim(l) == l.tau > 0

\* fn allows(time_since_start, key, tokens)
LimAllows(l, now, k, n) ==
  LET add == l.t * n IN
  IF add > l.tau THEN [l |-> l, ret |-> <<"TooLarge", 0>>]
  ELSE LET tat0 == IF Has(l.tat, k) THEN Get(l.tat, k) ELSE now       \* entry(key).or_insert(now): a new key has a full bucket
           l1   == [l EXCEPT !.tat = Put(@, k, tat0)]                 \* (the key is stored even when the request is refused)
           e0   == tat0 + add - l.tau
           earliest == IF e0 < 0 THEN 0 ELSE e0                       \* saturating_sub
       IN IF now < earliest
          THEN [l |-> l1, ret |-> <<"TooSoon", earliest - now>>]
          ELSE [l |-> [l1 EXCEPT !.tat = Put(@, k, MaxOf(now, tat0) + add)], ret |-> <<"Ok", 0>>]

\* fn prune(time_limit): keeps the keys with tat >= time_limit
LimPrune(l, lim) == [l EXCEPT !.tat = {p \in @ : p[2] >= lim}]

LStep(l, now, op) ==
  CASE op.o = "allows" -> LimAllows(l, now, op.k, op.n)
    [] op.o = "prune"  -> [l |-> LimPrune(l, op.lim), ret |-> <<"Ok", 0>>]
    [] op.o = "tick"   -> [l |-> l, ret |-> <<"Ok", 0>>]

\* ------------------------------------------------------------------ RateLimiter
\* cfg: [enabled, rl, ipq, nodeq, totq, maxNodes, maxBans, banDur]   (maxNodes / maxBans / banDur = 0: None)
RlNew(cfg) == [tot |-> LimNew(cfg.totq), ip |-> LimNew(cfg.ipq), node |-> LimNew(cfg.nodeq)]
\* fn RateLimiter::allows(LimitKind): one token; a limiter that is not configured allows
RlAllows(l, now, k) == IF HasLim(l) THEN LimAllows(l, now, k, 1) ELSE [l |-> l, ret |-> <<"Ok", 0>>]
\* fn RateLimiter::prune: every limiter with the current time
RlPrune(rl, now) == [tot |-> LimPrune(rl.tot, now), ip |-> LimPrune(rl.ip, now), node |-> LimPrune(rl.node, now)]

\* ------------------------------------------------------------------ ban list
\* bl: [pi, bi, pn, bn] = permit_ips (set), ban_ips (map ip -> expiry), permit_nodes, ban_nodes
\* expiry: [perm |-> TRUE, until |-> 0] (None) or [perm |-> FALSE, until |-> tick]
Bl0 == [pi |-> {}, bi |-> {}, pn |-> {}, bn |-> {}]
Perm == [perm |-> TRUE, until |-> 0]
Until(t) == [perm |-> FALSE, until |-> t]
\* ban_duration.map(|v| Instant::now() + v)
BanTimeout(cfg, now) == IF cfg.banDur = 0 THEN Perm ELSE Until(now + cfg.banDur)

\* ------------------------------------------------------------------ Filter
\* f: [rl, known, bcnt]  known = known_addrs (ip -> set of node ids), bcnt = banned_nodes (ip -> count)
\* (both are LRU caches of 500 / 50 IPs in the code: the bound is not reachable with the few IPs used here)
FNew(cfg) == [rl |-> RlNew(cfg), known |-> {}, bcnt |-> {}]

\* fn initial_pass(src)
InitialPass(f, bl, cfg, now, ip) ==
  IF ip \in bl.pi THEN [f |-> f, bl |-> bl, ret |-> "pass"]
  ELSE IF Has(bl.bi, ip) THEN [f |-> f, bl |-> bl, ret |-> "drop"]
  ELSE IF ~cfg.enabled \/ ~cfg.rl THEN [f |-> f, bl |-> bl, ret |-> "pass"]      \* (the packet cache is metrics only)
  ELSE LET r1 == RlAllows(f.rl.ip, now, ip)
           f1 == [f EXCEPT !.rl.ip = r1.l] IN
       IF r1.ret[1] # "Ok"
       THEN [f |-> f1, bl |-> [bl EXCEPT !.bi = Put(@, ip, BanTimeout(cfg, now))], ret |-> "drop"]
       ELSE LET r2 == RlAllows(f1.rl.tot, now, 0)                                  \* the IP's token is spent even if the
                f2 == [f1 EXCEPT !.rl.tot = r2.l] IN                               \* total limit then refuses the packet
            IF r2.ret[1] # "Ok" THEN [f |-> f2, bl |-> bl, ret |-> "drop"] ELSE [f |-> f2, bl |-> bl, ret |-> "pass"]

\* fn final_pass(node_address, packet)
FinalPass(f, bl, cfg, now, ip, nd) ==
  IF nd \in bl.pn THEN [f |-> f, bl |-> bl, ret |-> "pass"]
  ELSE IF Has(bl.bn, nd) THEN [f |-> f, bl |-> bl, ret |-> "drop"]
  ELSE IF ~cfg.enabled THEN [f |-> f, bl |-> bl, ret |-> "pass"]
  ELSE LET r  == IF cfg.rl THEN RlAllows(f.rl.node, now, nd) ELSE [l |-> f.rl.node, ret |-> <<"Ok", 0>>]
           f1 == [f EXCEPT !.rl.node = r.l] IN
       IF r.ret[1] # "Ok"
       THEN LET to  == BanTimeout(cfg, now)
                bl1 == [bl EXCEPT !.bn = Put(@, nd, to)] IN
            IF cfg.maxBans = 0 THEN [f |-> f1, bl |-> bl1, ret |-> "drop"]
            ELSE IF Has(f1.bcnt, ip)
                 THEN LET c == Get(f1.bcnt, ip) + 1 IN
                      [f |-> [f1 EXCEPT !.bcnt = Put(@, ip, c)],
                       bl |-> IF c >= cfg.maxBans THEN [bl1 EXCEPT !.bi = Put(@, ip, to)] ELSE bl1, ret |-> "drop"]
                 ELSE [f |-> [f1 EXCEPT !.bcnt = Put(@, ip, 0)], bl |-> bl1, ret |-> "drop"]     \* the first ban counts 0
       ELSE IF cfg.maxNodes = 0 THEN [f |-> f1, bl |-> bl, ret |-> "pass"]
       ELSE LET ids == (IF Has(f1.known, ip) THEN Get(f1.known, ip) ELSE {}) \cup {nd} IN
            IF Cardinality(ids) >= cfg.maxNodes
            THEN [f |-> [f1 EXCEPT !.known = Del(@, ip)], bl |-> [bl EXCEPT !.bi = Put(@, ip, BanTimeout(cfg, now))], ret |-> "drop"]
            ELSE [f |-> [f1 EXCEPT !.known = Put(@, ip, ids)], bl |-> bl, ret |-> "pass"]

\* recv.rs handle_inbound for an unsolicited datagram: first stage; a decoded packet that names its
\* sender (nd # 0; a WHOAREYOU or an undecodable datagram does not) then takes the second stage
Inbound(f, bl, cfg, now, ip, nd) ==
  LET a == InitialPass(f, bl, cfg, now, ip) IN
  IF a.ret = "drop" \/ nd = 0 THEN [f |-> a.f, bl |-> a.bl, ret |-> <<a.ret, "na">>]
  ELSE LET b == FinalPass(a.f, a.bl, cfg, now, ip, nd) IN [f |-> b.f, bl |-> b.bl, ret |-> <<"pass", b.ret>>]

Exp(now, d) == IF d = 0 THEN Perm ELSE Until(now + d)
OkRet == <<"ok", "ok">>
FStep(f, bl, cfg, now, op) ==
  CASE op.o = "pkt"   -> Inbound(f, bl, cfg, now, op.ip, op.node)
    [] op.o = "prune" -> [f |-> IF cfg.rl THEN [f EXCEPT !.rl = RlPrune(@, now)] ELSE f, bl |-> bl, ret |-> OkRet]   \* fn prune_limiter
    [] op.o = "tick"  -> [f |-> f, bl |-> bl, ret |-> OkRet]
    \* Discv5::{ban_ip, ban_ip_remove, permit_ip, permit_ip_remove, ban_node, ban_node_remove, permit_node, permit_node_remove}
    [] op.o = "ban_ip"        -> [f |-> f, bl |-> [bl EXCEPT !.bi = Put(@, op.ip, Exp(now, op.d))], ret |-> OkRet]
    [] op.o = "unban_ip"      -> [f |-> f, bl |-> [bl EXCEPT !.bi = Del(@, op.ip)], ret |-> OkRet]
    [] op.o = "permit_ip"     -> [f |-> f, bl |-> [bl EXCEPT !.pi = @ \cup {op.ip}], ret |-> OkRet]
    [] op.o = "unpermit_ip"   -> [f |-> f, bl |-> [bl EXCEPT !.pi = @ \ {op.ip}], ret |-> OkRet]
    [] op.o = "ban_node"      -> [f |-> f, bl |-> [bl EXCEPT !.bn = Put(@, op.node, Exp(now, op.d))], ret |-> OkRet]
    [] op.o = "unban_node"    -> [f |-> f, bl |-> [bl EXCEPT !.bn = Del(@, op.node)], ret |-> OkRet]
    [] op.o = "permit_node"   -> [f |-> f, bl |-> [bl EXCEPT !.pn = @ \cup {op.node}], ret |-> OkRet]
    [] op.o = "unpermit_node" -> [f |-> f, bl |-> [bl EXCEPT !.pn = @ \ {op.node}], ret |-> OkRet]

\* ------------------------------------------------------------------ RecvHandler::handle_inbound (recv.rs)
\* exp: the sources a response is expected from (the handler's filter_expected_responses map): their datagrams bypass both
\* stages.  kind: "msg" / "hs" (decodes and names the node id nd: message and handshake packets), "way" (decodes, a WHOAREYOU names no sender), "junk" (does not decode)
HandleInbound(f, bl, cfg, now, exp, ip, kind, nd) ==
  LET permitted == ip \in exp
      a == IF permitted THEN [f |-> f, bl |-> bl, ret |-> "pass"] ELSE InitialPass(f, bl, cfg, now, ip) IN
  IF a.ret = "drop" THEN [f |-> a.f, bl |-> a.bl, ret |-> "drop"]
  ELSE IF kind = "junk" THEN [f |-> a.f, bl |-> a.bl, ret |-> "unrecognized"]         \* forwarded as UnrecognizedFrame
  ELSE IF kind = "way" \/ permitted THEN [f |-> a.f, bl |-> a.bl, ret |-> "inbound"]
  ELSE LET b == FinalPass(a.f, a.bl, cfg, now, ip, nd) IN
       [f |-> b.f, bl |-> b.bl, ret |-> IF b.ret = "drop" THEN "drop" ELSE "inbound"]

\* state of the receive task: filter f + exp; every other operation is the filter's
RStep(f, bl, cfg, now, exp, op) ==
  CASE op.o = "dgram"    -> LET r == HandleInbound(f, bl, cfg, now, exp, op.ip, op.kind, op.node) IN
                            [f |-> r.f, bl |-> r.bl, exp |-> exp, ret |-> <<r.ret, "ok">>]
    [] op.o = "expect"   -> [f |-> f, bl |-> bl, exp |-> exp \cup {op.ip}, ret |-> OkRet]
    [] op.o = "unexpect" -> [f |-> f, bl |-> bl, exp |-> exp \ {op.ip}, ret |-> OkRet]
    [] OTHER             -> LET r == FStep(f, bl, cfg, now, op) IN [f |-> r.f, bl |-> r.bl, exp |-> exp, ret |-> r.ret]

\* ================================================================== property formulas (C18)
\* A ledger is a sequence of arrivals [t |-> time, w |-> tokens, ...].  A window i..j of arrivals of one key is within
\* the quota iff its tokens do not exceed  burst + floor((t_j - t_i) / T),  T = period / burst  (= burst + rate * window).
RECURSIVE SumW(_, _, _)
SumW(s, i, j) == IF i > j THEN 0 ELSE s[i].w + SumW(s, i + 1, j)
Span(s, i, j, q) == SumW(s, i, j) <= q.b + ((s[j].t - s[i].t) \div (q.p \div q.b))
Within(s, q)     == \A i, j \in 1..Len(s) : i <= j => Span(s, i, j, q)
LastWithin(s, q) == \A i \in 1..Len(s) : Span(s, i, Len(s), q)       \* the windows ending at the last arrival

\* ---- limiter level.  led: arrivals [t, w, k, ok, sh] of one limiter (sh = verdict of the copy that is never pruned)
OfKey(led, k)    == SelectSeq(led, LAMBDA x : x.k = k)
PassedKey(led, k) == SelectSeq(led, LAMBDA x : x.k = k /\ x.ok)
LViols(led, q) ==
  IF led = <<>> THEN {} ELSE
  LET a == led[Len(led)] IN
  \* the number let through in any window never exceeds burst + rate * window
  (IF a.ok /\ ~LastWithin(PassedKey(led, a.k), q) THEN {"C18.Window"} ELSE {})
  \* traffic of a key that stays within the quota is never refused
  \cup (IF ~a.ok /\ Within(OfKey(led, a.k), q) THEN {"C18.RefusedWithinQuota"} ELSE {})
  \* pruning does not change any decision
  \cup (IF a.ok # a.sh THEN {"C18.PruneNeutral"} ELSE {})
\* design level (stronger, a theorem about the transcription): a request is refused iff it does not fit with those let through
LExact(led, q) == led = <<>> \/ LET a == led[Len(led)] IN
                    a.ok <=> LastWithin(Append(SelectSeq(SubSeq(led, 1, Len(led) - 1), LAMBDA x : x.k = a.k /\ x.ok), a), q)

\* ---- filter level.  arr: arrivals
\*   [t, w |-> 1, ip, node, s1, s2,           the datagram and the verdicts of the two stages ("pass" / "drop" / "na")
\*    pIp, bIp, pNode, bNode,                 was the IP / node id permitted / banned when it arrived
\*    ipBan, nodeBan,                         expiry entries {e} of the IP / node id after it, {} if not banned then
\*    sh]                                     verdicts of the copy whose limiter is never pruned
Entry(op, now, pre, post, ret, sh) ==
  [t |-> now, w |-> 1, ip |-> op.ip, node |-> op.node, s1 |-> ret[1], s2 |-> ret[2],
   pIp |-> op.ip \in pre.pi, bIp |-> Has(pre.bi, op.ip), pNode |-> op.node \in pre.pn, bNode |-> Has(pre.bn, op.node),
   ipBan |-> {p[2] : p \in {x \in post.bi : x[1] = op.ip}}, nodeBan |-> {p[2] : p \in {x \in post.bn : x[1] = op.node}},
   sh |-> sh]
Through(x) == x.s1 = "pass" /\ x.s2 # "drop"            \* let through by the filter
LongEnough(e, cfg, t) == IF cfg.banDur = 0 THEN e.perm ELSE e.perm \/ e.until >= t + cfg.banDur

FViols(arr, cfg) ==
  IF arr = <<>> \/ ~cfg.enabled THEN {} ELSE
  LET n == Len(arr)
      a == arr[n]
      before == SubSeq(arr, 1, n - 1)
      ipThrough(s)   == SelectSeq(s, LAMBDA x : x.ip = a.ip /\ ~x.pIp /\ Through(x))
      totThrough(s)  == SelectSeq(s, LAMBDA x : ~x.pIp /\ Through(x))
      nodeThrough(s) == SelectSeq(s, LAMBDA x : x.node = a.node /\ ~x.pNode /\ Through(x))
      ipAll   == SelectSeq(arr, LAMBDA x : x.ip = a.ip)
      nodeAll == SelectSeq(arr, LAMBDA x : x.node = a.node)
      limited == cfg.rl
      ipq == IF limited THEN cfg.ipq ELSE NoQ   nodeq == IF limited THEN cfg.nodeq ELSE NoQ   totq == IF limited THEN cfg.totq ELSE NoQ
      refused1 == a.s1 = "drop"
      refused2 == a.s1 = "pass" /\ a.s2 = "drop"
  IN
  \* (1) of the datagrams of one IP / one node id / in total (not on the permit list), the number let through in any
  \*     window never exceeds burst + rate * window
  (IF Through(a) /\ ~a.pIp /\ HasQ(ipq) /\ ~LastWithin(ipThrough(arr), ipq) THEN {"C18.WindowIp"} ELSE {})
  \cup (IF Through(a) /\ ~a.pIp /\ HasQ(totq) /\ ~LastWithin(totThrough(arr), totq) THEN {"C18.WindowTotal"} ELSE {})
  \cup (IF Through(a) /\ a.node # 0 /\ ~a.pNode /\ HasQ(nodeq) /\ ~LastWithin(nodeThrough(arr), nodeq) THEN {"C18.WindowNode"} ELSE {})
  \* (2) traffic that stays within every applicable quota is never refused: a refusal needs a ban, or traffic of the IP /
  \*     of the node id / in total that is not within its quota (the other refusal reason, max_nodes_per_ip, must be off)
  \*     For the total quota the traffic that counts is what reaches the total limiter: datagrams turned away before it (banned IP, or
  \*     refused for their IP's own excess - such a refusal enacts a ban) are not charged to everybody else (seed C18-2).
  \cup (IF refused1 /\ ~(a.bIp /\ ~a.pIp) /\ ~(~a.pIp /\ HasQ(ipq) /\ ~Within(ipAll, ipq))
           /\ ~(~a.pIp /\ HasQ(totq) /\ ~Within(SelectSeq(arr, LAMBDA x : ~(x.s1 = "drop" /\ ~x.pIp /\ (x.bIp \/ x.ipBan # {}))), totq))
        THEN {"C18.RefusedWithinQuota"} ELSE {})
  \cup (IF refused2 /\ ~(a.bNode /\ ~a.pNode) /\ ~(~a.pNode /\ HasQ(nodeq) /\ ~Within(nodeAll, nodeq)) /\ ~(~a.pNode /\ cfg.maxNodes > 0)
        THEN {"C18.RefusedWithinQuota"} ELSE {})
  \* (3) pruning the limiter state does not change any decision
  \cup (IF <<a.s1, a.s2>> # a.sh THEN {"C18.PruneNeutral"} ELSE {})
  \* (4) a banned IP is dropped at the IP stage, a banned node id at the node stage, unless permitted: then that stage passes it
  \cup (IF (a.pIp /\ a.s1 # "pass") \/ (a.bIp /\ ~a.pIp /\ a.s1 # "drop")
           \/ (a.s1 = "pass" /\ a.node # 0 /\ ((a.pNode /\ a.s2 # "pass") \/ (a.bNode /\ ~a.pNode /\ a.s2 # "drop")))
        THEN {"C18.BanPermit"} ELSE {})
  \* (5) a sender that exceeds its per-IP / per-node quota (this datagram does not fit with those let through) is banned ...
  \cup (IF refused1 /\ ~a.pIp /\ ~a.bIp /\ HasQ(ipq) /\ ~LastWithin(Append(ipThrough(before), a), ipq) /\ a.ipBan = {}
        THEN {"C18.ExcessNotBanned"} ELSE {})
  \cup (IF refused2 /\ ~a.pNode /\ ~a.bNode /\ HasQ(nodeq) /\ ~LastWithin(Append(nodeThrough(before), a), nodeq) /\ a.nodeBan = {}
        THEN {"C18.ExcessNotBanned"} ELSE {})
  \* ... for at least the configured duration (a ban enacted by this refusal: the key was not banned before)
  \cup (IF (refused1 /\ ~a.bIp /\ \E e \in a.ipBan : ~LongEnough(e, cfg, a.t))
           \/ (refused2 /\ ~a.bNode /\ \E e \in a.nodeBan : ~LongEnough(e, cfg, a.t))
        THEN {"C18.BanTooShort"} ELSE {})

\* ---- receive-task level.  Only the outcome of a datagram is observable ("drop" / "inbound" / "unrecognized"), not the stage
\* that dropped it.  arr: [t, w |-> 1, ip, node (0: names none), out, sol (a response was expected from the source: solicited),
\*                         pIp, bIp, pNode, bNode, ipBan, nodeBan, sh]
REntry(op, now, exp, pre, post, ret, sh) ==
  LET nd == IF op.kind \in {"msg", "hs"} THEN op.node ELSE 0 IN
  [t |-> now, w |-> 1, ip |-> op.ip, node |-> nd, out |-> ret[1], sol |-> op.ip \in exp,
   pIp |-> op.ip \in pre.pi, bIp |-> Has(pre.bi, op.ip), pNode |-> nd \in pre.pn, bNode |-> Has(pre.bn, nd),
   ipBan |-> {p[2] : p \in {x \in post.bi : x[1] = op.ip}}, nodeBan |-> {p[2] : p \in {x \in post.bn : x[1] = nd}},
   sh |-> sh[1]]
RViols(arr, cfg) ==
  IF arr = <<>> \/ ~cfg.enabled THEN {} ELSE
  LET n == Len(arr)
      a == arr[n]
      before == SubSeq(arr, 1, n - 1)
      through(x) == x.out # "drop"
      ipThrough(s)   == SelectSeq(s, LAMBDA x : x.ip = a.ip /\ ~x.sol /\ ~x.pIp /\ through(x))
      totThrough(s)  == SelectSeq(s, LAMBDA x : ~x.sol /\ ~x.pIp /\ through(x))
      nodeThrough(s) == SelectSeq(s, LAMBDA x : x.node = a.node /\ ~x.sol /\ ~x.pNode /\ through(x))
      ipAll   == SelectSeq(arr, LAMBDA x : x.ip = a.ip)
      nodeAll == SelectSeq(arr, LAMBDA x : x.node = a.node)
      ipq == IF cfg.rl THEN cfg.ipq ELSE NoQ   nodeq == IF cfg.rl THEN cfg.nodeq ELSE NoQ   totq == IF cfg.rl THEN cfg.totq ELSE NoQ
      \* what can justify a drop: at the IP stage (unless the IP is permitted) a ban or traffic beyond the IP / total quota,
      \* at the node stage (a named, not permitted node id) a ban or traffic beyond the node quota (or max_nodes_per_ip being on)
      j1 == ~a.pIp /\ (a.bIp \/ (HasQ(ipq) /\ ~Within(ipAll, ipq)) \/ (HasQ(totq) /\ ~Within(arr, totq)))
      j2 == a.node # 0 /\ ~a.pNode /\ (a.bNode \/ (HasQ(nodeq) /\ ~Within(nodeAll, nodeq)) \/ cfg.maxNodes > 0)
  IN
  IF a.sol THEN {} ELSE                         \* the property is about unsolicited datagrams
  (IF through(a) /\ ~a.pIp /\ HasQ(ipq) /\ ~LastWithin(ipThrough(arr), ipq) THEN {"C18.WindowIp"} ELSE {})
  \cup (IF through(a) /\ ~a.pIp /\ HasQ(totq) /\ ~LastWithin(totThrough(arr), totq) THEN {"C18.WindowTotal"} ELSE {})
  \cup (IF through(a) /\ a.node # 0 /\ ~a.pNode /\ HasQ(nodeq) /\ ~LastWithin(nodeThrough(arr), nodeq) THEN {"C18.WindowNode"} ELSE {})
  \cup (IF a.out = "drop" /\ ~j1 /\ ~j2
        THEN {IF a.pIp /\ (a.node = 0 \/ a.pNode) THEN "C18.BanPermit" ELSE "C18.RefusedWithinQuota"} ELSE {})
  \cup (IF through(a) /\ ((a.bIp /\ ~a.pIp) \/ (a.node # 0 /\ a.bNode /\ ~a.pNode)) THEN {"C18.BanPermit"} ELSE {})
  \cup (IF a.out # a.sh THEN {"C18.PruneNeutral"} ELSE {})
  \* (the IP limit is consulted first: a datagram that does not fit with the IP's let-through ones gets the IP banned)
  \cup (IF a.out = "drop" /\ ~a.pIp /\ ~a.bIp /\ HasQ(ipq) /\ ~LastWithin(Append(ipThrough(before), a), ipq) /\ a.ipBan = {}
        THEN {"C18.ExcessNotBanned"} ELSE {})
  \cup (IF a.out = "drop" /\ ((~a.bIp /\ \E e \in a.ipBan : ~LongEnough(e, cfg, a.t)) \/ (a.node # 0 /\ ~a.bNode /\ \E e \in a.nodeBan : ~LongEnough(e, cfg, a.t)))
        THEN {"C18.BanTooShort"} ELSE {})

\* design level (stronger): the stage verdicts themselves obey the windows (tokens are spent per stage)
FStageViols(arr, cfg) ==
  IF arr = <<>> \/ ~cfg.enabled \/ ~cfg.rl THEN {} ELSE
  LET a == arr[Len(arr)] IN
  (IF a.s1 = "pass" /\ ~a.pIp /\ HasQ(cfg.ipq) /\ ~LastWithin(SelectSeq(arr, LAMBDA x : x.ip = a.ip /\ ~x.pIp /\ x.s1 = "pass"), cfg.ipq) THEN {"StageIp"} ELSE {})
  \cup (IF a.s1 = "pass" /\ ~a.pIp /\ ~LastWithin(SelectSeq(arr, LAMBDA x : ~x.pIp /\ x.s1 = "pass"), cfg.totq) THEN {"StageTotal"} ELSE {})
  \cup (IF a.s2 = "pass" /\ ~a.pNode /\ HasQ(cfg.nodeq) /\ ~LastWithin(SelectSeq(arr, LAMBDA x : x.node = a.node /\ ~x.pNode /\ x.s2 = "pass"), cfg.nodeq) THEN {"StageNode"} ELSE {})
=============================================================================
