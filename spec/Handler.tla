------------------------------ MODULE Handler ------------------------------
(* Specification of the session/handshake/request layer: src/handler/mod.rs with               *)
(* session.rs, active_requests.rs, request_call.rs and the session cache (lru_time_cache.rs).  *)
(*                                                                                             *)
(* The handler is a pure step function  HStep(h, in) = h' (with h'.tx = datagrams handed to    *)
(* the send task and h'.ev = HandlerOut events of this step, both in emission order).  Each    *)
(* helper operator is one function of the code and keeps the code's order of effects.          *)
(* Cryptography is symbolic: a session key is a token known to the node and to the party that  *)
(* ran the other half of the handshake; a signature verifies iff it was made with the key of    *)
(* the selected record over exactly the outstanding challenge.                                  *)
(*                                                                                             *)
(* Names: n<k> message nonces of the node, i<k> id-nonces of its WHOAREYOUs, q<k> internal      *)
(* request ids, w<k> references of WhoAreYou queries — all numbered in order of creation, the   *)
(* same way the harness interns the real random values, so predictions and observations can be  *)
(* compared by name.                                                                            *)
(*                                                                                             *)
(* Time: `now` counts ticks of the request timeout clock (tokio), TO ticks = request_timeout.   *)
(* Session age is a separate clock (std::time, aged by the AgeSessions input).                   *)
EXTENDS Integers, Sequences, FiniteSets, TLC

CONSTANTS TO          \* request timeout in ticks (also the lifetime of a challenge)

Name(c, k) == c \o ToString(k)
Addr(id, sock) == [id |-> id, sock |-> sock]
NoRec == [owner |-> "none", seq |-> 0, sock |-> "none"]
\* records are named "<party>:<seq>"; seq 9 is the record without address fields
HomeSock(p) == CASE p = "p1" -> "a1" [] p = "p2" -> "a2" [] p = "p3" -> "a3" [] p = "A" -> "aA" [] OTHER -> "aL"

\* ------------------------------------------------------------------ state constructor
HInit(retries, cap, ttl) ==
  [sessq |-> <<>>,         \* LRU order, front = least recently used: [addr, cur, old, aw, age]
   chal  |-> <<>>,         \* outstanding WHOAREYOUs of the node: [addr, idn, rec, dl, sq]
   active |-> <<>>,        \* request calls in (re)insertion order
   pend  |-> <<>>,         \* queued requests: [addr, rid, int, enr, body] in arrival order
   exp   |-> <<>>,         \* filter exemptions: [sock, n]
   nn |-> 0, ni |-> 0, nq |-> 0, nw |-> 0,
   now |-> 0, sq |-> 0, stepno |-> 0,
   retries |-> retries, cap |-> cap, ttl |-> ttl,
   tx |-> <<>>, ev |-> <<>>]

Begin(h) == [h EXCEPT !.tx = <<>>, !.ev = <<>>, !.stepno = @ + 1, !.sq = h.stepno + 1]
Tx(st, d) == [st EXCEPT !.tx = Append(@, d)]
Ev(st, e) == [st EXCEPT !.ev = Append(@, e)]

\* ------------------------------------------------------------------ small sequence helpers
RECURSIVE SelectIdx(_, _, _)
SelectIdx(q, P(_), i) == IF i > Len(q) THEN 0 ELSE IF P(q[i]) THEN i ELSE SelectIdx(q, P, i + 1)
FirstIdx(q, P(_)) == SelectIdx(q, P, 1)
HDrop(q, i) == SubSeq(q, 1, i - 1) \o SubSeq(q, i + 1, Len(q))
HFilter(q, P(_)) == SelectSeq(q, P)

\* ------------------------------------------------------------------ filter exemptions
ExpIdx(st, s) == FirstIdx(st.exp, LAMBDA x : x.sock = s)
AddExp(st, s) == LET i == ExpIdx(st, s) IN
  IF i = 0 THEN [st EXCEPT !.exp = Append(@, [sock |-> s, n |-> 1])] ELSE [st EXCEPT !.exp[i].n = @ + 1]
RemExp(st, s) == LET i == ExpIdx(st, s) IN
  IF i = 0 THEN st ELSE IF st.exp[i].n <= 1 THEN [st EXCEPT !.exp = HDrop(@, i)] ELSE [st EXCEPT !.exp[i].n = @ - 1]
ExpCount(st, s) == LET i == ExpIdx(st, s) IN IF i = 0 THEN 0 ELSE st.exp[i].n

\* ------------------------------------------------------------------ session cache (LruTimeCache)
SessIdx(st, a) == FirstIdx(st.sessq, LAMBDA x : x.addr = a)
Live(st, x) == x.age <= st.ttl
\* sessions.get_mut / get: a live session is refreshed and moved to the back; an expired one is not returned
HasSess(st, a) == LET i == SessIdx(st, a) IN i # 0 /\ Live(st, st.sessq[i])
Touch(st, a) == LET i == SessIdx(st, a) IN
  IF i # 0 /\ Live(st, st.sessq[i])
  THEN [st EXCEPT !.sessq = Append(HDrop(@, i), [st.sessq[i] EXCEPT !.age = 0])] ELSE st
Sess(st, a) == st.sessq[SessIdx(st, a)]
SetSess(st, a, s) == [st EXCEPT !.sessq[SessIdx(st, a)] = s]
\* sessions.insert: replace (moving to the back) or append; evict the front when over capacity
InsertSess(st, a, s) == LET i == SessIdx(st, a)
                            q == Append(IF i = 0 THEN st.sessq ELSE HDrop(st.sessq, i), s) IN
  [st EXCEPT !.sessq = IF Len(q) > st.cap THEN Tail(q) ELSE q]
RemoveSess(st, a) == LET i == SessIdx(st, a) IN IF i = 0 THEN st ELSE [st EXCEPT !.sessq = HDrop(@, i)]
\* remove_expired_sessions: purge the expired prefix and report it
RECURSIVE ExpiredPrefix(_, _)
ExpiredPrefix(st, q) == IF q # <<>> /\ ~Live(st, Head(q)) THEN <<Head(q).addr>> \o ExpiredPrefix(st, Tail(q)) ELSE <<>>
PurgeExpired(st) == LET gone == ExpiredPrefix(st, st.sessq) IN
  IF gone = <<>> THEN st
  ELSE Ev([st EXCEPT !.sessq = SubSeq(@, Len(gone) + 1, Len(@))], [e |-> "Expired", addrs |-> gone])

\* ------------------------------------------------------------------ challenges / active / pending
ChalIdx(st, a) == FirstIdx(st.chal, LAMBDA x : x.addr = a)
HasChal(st, a) == ChalIdx(st, a) # 0
ActiveOf(st, a) == HFilter(st.active, LAMBDA c : c.addr = a)
PendOf(st, a) == HFilter(st.pend, LAMBDA p : p.addr = a)
\* insert into active_requests: appended to the address's list, timer (re)armed
InsertCall(st, c) == [st EXCEPT !.active = Append(@, [c EXCEPT !.dl = st.now + TO, !.sq = st.sq])]
IsAwaiting(st, a) == ~HasSess(st, a) /\ \E i \in 1..Len(st.active) : st.active[i].addr = a /\ st.active[i].init

FreshN(st) == Name("n", st.nn + 1)
ReqBody(c) == [t |-> "req", rid |-> c.rid, kind |-> c.body]
External(rid_int) == ~rid_int
FailEv(st, rid, int, err) == IF int THEN st ELSE Ev(st, [e |-> "RequestFailed", rid |-> rid, err |-> err])

\* ------------------------------------------------------------------ fn send_request
SendRequest(st, c0) ==   \* c0 = [addr, rid, int, enr, seq, body]  (seq: sequence number of the contact's record, 0 without record)
  LET a == c0.addr IN
  IF HasChal(st, a) THEN [st EXCEPT !.pend = Append(@, c0)]
  ELSE LET st1 == Touch(st, a) IN             \* is_awaiting_session_to_be_established: sessions.get
       IF IsAwaiting(st1, a) THEN [st1 EXCEPT !.pend = Append(@, c0)]
       ELSE LET st2 == Touch(st1, a)          \* sessions.get_mut
                n   == FreshN(st2)
                has == HasSess(st2, a)
                key == IF has THEN Sess(st2, a).cur ELSE "none"
                call == [addr |-> a, rid |-> c0.rid, int |-> c0.int, enr |-> c0.enr, seq |-> c0.seq, body |-> c0.body,
                         n |-> n, kind |-> IF has THEN "msg" ELSE "rand", key |-> key, hs |-> FALSE,
                         retries |-> 1, rem |-> 0, init |-> ~has, dl |-> 0, sq |-> 0]
                d == [to |-> a.sock, id |-> a.id, kind |-> call.kind, n |-> n, key |-> key,
                      body |-> IF has THEN ReqBody(call) ELSE [t |-> "none"], re |-> FALSE]
            IN InsertCall(Tx(AddExp([st2 EXCEPT !.nn = @ + 1], a.sock), d), call)

RECURSIVE SendAll(_, _)
SendAll(st, q) == IF q = <<>> THEN st ELSE SendAll(SendRequest(st, Head(q)), Tail(q))
\* fn send_pending_requests
SendPending(st, a) == SendAll([st EXCEPT !.pend = HFilter(@, LAMBDA p : p.addr # a)], PendOf(st, a))

\* ------------------------------------------------------------------ fn fail_session / fail_request
RECURSIVE FailList(_, _, _)
FailList(st, q, err) == IF q = <<>> THEN st ELSE FailList(FailEv(st, Head(q).rid, Head(q).int, err), Tail(q), err)
RECURSIVE FailActive(_, _, _)
FailActive(st, q, err) == IF q = <<>> THEN st
                          ELSE FailActive(RemExp(FailEv(st, Head(q).rid, Head(q).int, err), Head(q).addr.sock), Tail(q), err)
FailSession(st, a, err, remove) ==
  LET st1 == IF remove THEN RemoveSess(PurgeExpired(st), a) ELSE st
      st2 == FailList([st1 EXCEPT !.pend = HFilter(@, LAMBDA p : p.addr # a)], PendOf(st1, a), err)
  IN FailActive([st2 EXCEPT !.active = HFilter(@, LAMBDA c : c.addr # a)], ActiveOf(st2, a), err)
FailRequest(st, c, err, remove) == FailSession(FailEv(st, c.rid, c.int, err), c.addr, err, remove)

\* ------------------------------------------------------------------ fn replay_active_requests / new_session
RECURSIVE Replay(_, _, _, _)
Replay(st, a, todo, key) ==      \* todo: nonces of the calls to re-encrypt, in list order
  IF todo = <<>> THEN st
  ELSE LET i == FirstIdx(st.active, LAMBDA c : c.n = Head(todo))
           c == st.active[i]
           n == FreshN(st)
           c2 == [c EXCEPT !.n = n, !.kind = "msg", !.key = key, !.dl = st.now + TO, !.sq = st.sq]
           d == [to |-> a.sock, id |-> a.id, kind |-> "msg", n |-> n, key |-> key, body |-> ReqBody(c), re |-> FALSE]
       IN Replay(Tx([st EXCEPT !.nn = @ + 1, !.active[i] = c2], d), a, Tail(todo), key)
NewSession(st, a, key, aw, skip) ==
  LET st1 == PurgeExpired(st)
      st2 == Touch(st1, a) IN
  IF HasSess(st2, a)
  THEN LET s   == Sess(st2, a)
           st3 == SetSess(st2, a, [s EXCEPT !.old = s.cur, !.cur = key, !.aw = aw])
           st4 == Touch(st3, a)                                    \* replay_active_requests: sessions.get_mut
           calls == HFilter(ActiveOf(st4, a), LAMBDA c : c.n # skip)
           st5 == Replay(st4, a, [i \in 1..Len(calls) |-> calls[i].n], key)
       IN SendPending(st5, a)                                      \* `fix: C04` queued requests are released on a re-key too
  ELSE SendPending(InsertSess(st2, a, [addr |-> a, cur |-> key, old |-> "none", aw |-> aw, age |-> 0]), a)

\* ------------------------------------------------------------------ inputs from the application
AppRequest(st, in) == SendRequest(st, [addr |-> Addr(in.peer, in.addr), rid |-> in.rid, int |-> FALSE, enr |-> in.enr, seq |-> in.seq, body |-> in.body])

AppResponse(st, in) ==    \* fn send_response
  LET a == Addr(in.peer, in.addr)  st1 == Touch(st, a) IN
  IF ~HasSess(st1, a) THEN st1
  ELSE LET n == FreshN(st1) IN
       Tx([st1 EXCEPT !.nn = @ + 1],
          [to |-> a.sock, id |-> a.id, kind |-> "msg", n |-> n, key |-> Sess(st1, a).cur,
           body |-> [t |-> "resp", rid |-> in.xid, kind |-> in.body, total |-> in.total], re |-> FALSE])

AppWhoAreYou(st, in) ==   \* fn send_challenge; in = [a (addr), n (echoed nonce), rec]
  IF HasChal(st, in.a) THEN st
  ELSE LET idn == Name("i", st.ni + 1)
           d == [to |-> in.a.sock, id |-> in.a.id, kind |-> "way", n |-> "none", key |-> "none",
                 idn |-> idn, echo |-> in.n, enrseq |-> in.rec.seq, body |-> [t |-> "none"], re |-> FALSE]
       IN [Tx(AddExp([st EXCEPT !.ni = @ + 1], in.a.sock), d)
              EXCEPT !.chal = Append(@, [addr |-> in.a, idn |-> idn, rec |-> in.rec, dl |-> st.now + TO, sq |-> st.sq])]

\* ------------------------------------------------------------------ fn handle_response
HandleResponse(st, a, m) ==
  LET i == FirstIdx(st.active, LAMBDA c : c.addr = a /\ c.rid = m.rid) IN
  IF i = 0 THEN st
  ELSE LET c == st.active[i]
           st1 == [st EXCEPT !.active = HDrop(@, i)]
           evr == [e |-> "Response", id |-> a.id, addr |-> a.sock, rid |-> m.rid, kind |-> m.kind, total |-> m.total]
           more == IF m.kind = "nodes" /\ m.total > 1
                   THEN (IF c.rem = 0 THEN m.total - 1 ELSE c.rem - 1) ELSE 0
       IN IF more # 0 THEN Ev(InsertCall(st1, [c EXCEPT !.rem = more]), evr)
          ELSE Ev(RemExp(st1, a.sock), evr)

\* fn verify_enr
VerifyEnr(rec, a) == rec.owner = a.id /\ (rec.sock = "none" \/ rec.sock = a.sock)
WruEv(st, a, n) == Ev([st EXCEPT !.nw = @ + 1], [e |-> "WhoAreYou", id |-> a.id, addr |-> a.sock, ref |-> Name("w", st.nw + 1), n |-> n])

\* ------------------------------------------------------------------ fn handle_message;  d = [from, src, key, n, msg]
HandleMessage(st, a, n, key, m) ==
  LET st1 == Touch(st, a) IN
  IF ~HasSess(st1, a) THEN WruEv(st1, a, n)
  ELSE LET s == Sess(st1, a) IN
    IF key = "none" \/ key \notin {s.cur, s.old}
    THEN LET st2 == FailSession(st1, a, "InvalidRemotePacket", TRUE) IN
         IF HasChal(st2, a) THEN st2 ELSE WruEv(st2, a, n)
    ELSE LET st2 == IF key = s.cur THEN st1 ELSE SetSess(st1, a, [s EXCEPT !.cur = s.old, !.old = s.cur])   \* keys rotated
         IN CASE m.t = "junk" -> st2
              [] m.t = "req"  -> Ev(st2, [e |-> "Request", id |-> a.id, addr |-> a.sock, rid |-> m.rid, kind |-> m.kind])
              [] m.t = "resp" ->
                   IF Sess(st2, a).aw = m.rid
                   THEN LET st3 == SetSess(st2, a, [Sess(st2, a) EXCEPT !.aw = "none"]) IN
                        IF m.kind = "nodes" /\ m.rec.owner # "none"
                        THEN IF VerifyEnr(m.rec, a)
                             THEN \* `fix: C04/C13` the answered internal request is removed and its exemption released
                                  LET i == FirstIdx(st3.active, LAMBDA c : c.addr = a /\ c.rid = m.rid)
                                      st4 == IF i = 0 THEN st3 ELSE RemExp([st3 EXCEPT !.active = HDrop(@, i)], a.sock)
                                  IN Ev(st4, [e |-> "Established", id |-> m.rec.owner, addr |-> a.sock, dir |-> "Out", rec |-> m.recname])
                             ELSE FailSession(Ev(st3, [e |-> "Unverifiable", id |-> a.id, addr |-> a.sock, rec |-> m.recname]), a, "InvalidRemoteEnr", TRUE)
                        ELSE FailSession(st3, a, "InvalidRemoteEnr", TRUE)
                   ELSE HandleResponse(st2, a, m)

\* ------------------------------------------------------------------ fn handle_challenge (inbound WHOAREYOU)
\* in = [from, echo, seq, key]  key = the name the harness gives the session the challenger can derive ("none" if it cannot)
HandleChallenge(st, in) ==
  LET i == FirstIdx(st.active, LAMBDA c : c.n = in.echo) IN
  IF i = 0 THEN st
  ELSE LET c == st.active[i]  st0 == [st EXCEPT !.active = HDrop(@, i)] IN
    IF c.addr.sock # in.from THEN InsertCall(st0, c)
    ELSE IF c.hs THEN FailRequest(RemExp(st0, c.addr.sock), c, "InvalidRemotePacket", TRUE)    \* `fix: C13` exemption of the failed call released
    ELSE LET a  == c.addr
             n2 == FreshN(st0)
             key == IF in.key = "none" THEN Name("priv", st0.nn + 1) ELSE in.key
             hs == [to |-> a.sock, id |-> a.id, kind |-> "hs", n |-> n2, key |-> in.key, body |-> ReqBody(c),
                    rec |-> IF in.seq < 1 THEN "L:1" ELSE "none", re |-> FALSE]
             st1 == [st0 EXCEPT !.nn = @ + 1]
         IN IF c.enr
            THEN LET c2  == [c EXCEPT !.n = n2, !.kind = "hs", !.key = key, !.hs = TRUE, !.init = FALSE]
                     st2 == Tx(InsertCall(st1, c2), hs)
                     st3 == Ev(st2, [e |-> "Established", id |-> a.id, addr |-> a.sock, dir |-> IF c.init THEN "Out" ELSE "In", rec |-> Name(a.id \o ":", c.seq)])
                 IN NewSession(st3, a, key, "none", n2)
            ELSE LET c2  == [c EXCEPT !.n = n2, !.kind = "hs", !.key = key, !.hs = TRUE]
                     st2 == Tx(InsertCall(st1, c2), hs)
                     q   == Name("q", st2.nq + 1)
                     st3 == SendRequest([st2 EXCEPT !.nq = @ + 1], [addr |-> a, rid |-> q, int |-> TRUE, enr |-> FALSE, seq |-> 0, body |-> "findnode0"])
                 IN NewSession(st3, a, key, q, n2)

\* ------------------------------------------------------------------ fn handle_auth_message (inbound handshake)
\* in = [from, src, chal (idn answered), signer (party whose key signed, "bad" for an invalid signature),
\*       rec (attached record or NoRec), recname, key, n, msg]
SelectRec(attached, known) ==
  IF attached.owner # "none" /\ known.owner # "none" THEN (IF attached.seq > known.seq THEN attached ELSE known)
  ELSE IF attached.owner # "none" THEN attached ELSE known
HandleHandshake(st, in) ==
  LET a == Addr(in.src, in.from)  i == ChalIdx(st, a) IN
  IF i = 0 THEN st
  ELSE LET ch  == st.chal[i]
           st0 == [st EXCEPT !.chal = HDrop(@, i)]
           rec == SelectRec(in.rec, ch.rec)
           recname == IF rec = in.rec THEN in.recname ELSE Name(ch.rec.owner \o ":", ch.rec.seq)
       IN IF rec.owner = "none"
          THEN FailSession(RemExp(st0, a.sock), a, "InvalidRemotePacket", TRUE)     \* `fix: C13` the consumed challenge's exemption released
          ELSE IF ~(in.signer = rec.owner /\ in.chal = ch.idn /\ rec.owner = a.id)  \* signature under the selected record's key, over this challenge; `fix: C01` record must belong to the claimed id
          THEN [st0 EXCEPT !.chal = Append(@, [ch EXCEPT !.dl = st.now + TO, !.sq = st.sq])]   \* challenge put back (timer re-armed)
          ELSE LET st1 == RemExp(st0, a.sock)
                   st2 == IF VerifyEnr(rec, a)
                          THEN Ev(st1, [e |-> "Established", id |-> rec.owner, addr |-> a.sock, dir |-> "In", rec |-> recname])
                          ELSE Ev(st1, [e |-> "Unverifiable", id |-> a.id, addr |-> a.sock, rec |-> recname])
                   st3 == NewSession(st2, a, in.key, "none", "none")
               IN HandleMessage(st3, a, in.n, in.key, in.msg)

\* ------------------------------------------------------------------ timers
RequestTimeout(st, i) ==     \* fn handle_request_timeout for st.active[i] (removed from the mapping by the stream)
  LET c == st.active[i]  st0 == [st EXCEPT !.active = HDrop(@, i)] IN
  IF c.retries >= st.retries
  THEN FailRequest(RemExp(st0, c.addr.sock), c, "Timeout", FALSE)
  ELSE LET d == [to |-> c.addr.sock, id |-> c.addr.id, kind |-> c.kind, n |-> c.n,
                 key |-> IF c.kind = "rand" THEN "none" ELSE c.key,
                 body |-> IF c.kind = "rand" THEN [t |-> "none"] ELSE ReqBody(c), re |-> TRUE]
       IN [Tx(st0, d) EXCEPT !.active = Append(@, [c EXCEPT !.retries = @ + 1, !.dl = st.now + TO])]
ChallengeTimeout(st, i) ==
  LET a == st.chal[i].addr IN SendPending(RemExp([st EXCEPT !.chal = HDrop(@, i)], a.sock), a)

\* all timers due at `now`, earliest deadline first; timers armed in the same step with the same deadline may fire in either order
Less(x, y) == x.dl < y.dl \/ (x.dl = y.dl /\ x.sq < y.sq)
\* The set of states reachable by firing every timer due up to `final`, earliest first.  Each timer
\* is handled at its own deadline (st.now) and passes its ordering key on to what it arms (st.sq):
\* in the code a timer armed while handling an expiry inherits the millisecond offset of that expiry.
\* Timers with equal (dl, sq) - armed in the same step - may fire in either order.
RECURSIVE FireAll(_, _)
FireAll(st, final) ==
  LET R == {i \in 1..Len(st.active) : st.active[i].dl <= final}
      C == {i \in 1..Len(st.chal) : st.chal[i].dl <= final} IN
  IF R = {} /\ C = {} THEN {[st EXCEPT !.now = final]}
  ELSE LET minR == {i \in R : (\A j \in R : ~Less(st.active[j], st.active[i])) /\ (\A j \in C : ~Less(st.chal[j], st.active[i]))}
           minC == {i \in C : (\A j \in C : ~Less(st.chal[j], st.chal[i])) /\ (\A j \in R : ~Less(st.active[j], st.chal[i]))}
       IN UNION ({FireAll(RequestTimeout([st EXCEPT !.now = st.active[i].dl, !.sq = st.active[i].sq], i), final) : i \in minR}
                 \cup {FireAll(ChallengeTimeout([st EXCEPT !.now = st.chal[i].dl, !.sq = st.chal[i].sq], i), final) : i \in minC})

\* ------------------------------------------------------------------ the step function
\* resolved inputs: see MC_Handler / Trace_Handler for how they are produced
HStepDet(st, in) ==
  CASE in.k = "AppRequest"   -> AppRequest(st, in)
    [] in.k = "AppResponse"  -> AppResponse(st, in)
    [] in.k = "AppWhoAreYou" -> AppWhoAreYou(st, in)
    [] in.k = "way"          -> HandleChallenge(st, in)
    [] in.k = "hs"           -> HandleHandshake(st, in)
    [] in.k = "msg"          -> HandleMessage(st, Addr(in.src, in.from), in.n, in.key, in.msg)
    [] in.k = "frame"        -> Ev(st, [e |-> "Unrecognized", addr |-> in.from])
    [] in.k = "AgeSessions"  -> [st EXCEPT !.sessq = [i \in 1..Len(@) |-> [@[i] EXCEPT !.age = @ + in.units]]]
    [] in.k = "Nop"          -> st
\* Advance fires timers; every other input is handled at the current tick
HStep(h, in) ==
  IF in.k = "Advance" THEN FireAll(Begin(h), h.now + in.ticks)
  ELSE {HStepDet(Begin(h), in)}
=============================================================================
