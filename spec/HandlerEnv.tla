---------------------------- MODULE HandlerEnv ----------------------------
(* The environment of the handler as the conformance harness plays it: the application, the   *)
(* remote parties (honest peers p1..p3 and the attacker A, each with its own static key, its    *)
(* record address a<N> and a second socket a<N>b) and the network.  This module turns a harness *)
(* input (the JSON objects of a behaviour) into the resolved input HStep expects, and mirrors   *)
(* the bookkeeping the harness keeps about what the parties know (session keys, challenges).     *)
EXTENDS Handler

Socks(p) == {HomeSock(p), HomeSock(p) \o "b"}
\* "party:seq" -> record;  seq 9 = record without address fields
RecOf(name) ==
  IF name = "none" THEN NoRec
  ELSE LET p == CHOOSE x \in {"p1", "p2", "p3", "A"} : \E s \in {1, 2, 3, 9} : name = Name(x \o ":", s)
           s == CHOOSE s \in {1, 2, 3, 9} : name = Name(p \o ":", s)
       IN [owner |-> p, seq |-> s, sock |-> IF s = 9 THEN "none" ELSE HomeSock(p)]

EInit == [nk |-> 0, nm |-> 0, nj |-> 0,
          sess |-> <<>>,     \* peer-side sessions in creation order: [party, kid, claimed]
          mine |-> <<>>,     \* WHOAREYOUs parties sent to the node, unanswered: [party, claimed, from, echo, jid]
          froml |-> <<>>,    \* WHOAREYOUs of the node seen by the parties: [idn, id, sock]
          inj |-> <<>>,      \* resolved datagrams injected so far (Replay refers to them by position)
          wru |-> <<>>,      \* WhoAreYou queries not yet answered by the application: [ref, a, n]
          seen |-> <<>>,     \* message / handshake / random datagrams of the node: [n, to, id]
          ncap |-> 0]

Msg(m) == CASE m.t = "req"  -> [t |-> "req", rid |-> m.xid, kind |-> m.body]
            [] m.t = "resp" -> [t |-> "resp", rid |-> m.rid, kind |-> m.body, total |-> IF "total" \in DOMAIN m THEN m.total ELSE 1,
                                rec |-> RecOf(IF "rec" \in DOMAIN m THEN m.rec ELSE "none"), recname |-> IF "rec" \in DOMAIN m THEN m.rec ELSE "none"]
            [] OTHER -> [t |-> "junk"]
CurKid(env, party) == LET S == {i \in 1..Len(env.sess) : env.sess[i].party = party} IN
                      IF S = {} THEN "none" ELSE env.sess[CHOOSE i \in S : \A j \in S : j <= i].kid
ClaimOf(env, kid) == LET S == {i \in 1..Len(env.sess) : env.sess[i].kid = kid} IN
                     IF S = {} THEN "none" ELSE env.sess[CHOOSE i \in S : TRUE].claimed
Get(r, f, dflt) == IF f \in DOMAIN r THEN r[f] ELSE dflt

\* ---- the key a WHOAREYOU's sender will be able to derive when the node answers it (harness: observe_wire)
WayKey(h, env, in) ==
  LET i == FirstIdx(h.active, LAMBDA c : c.n = in.echo) IN
  IF i = 0 THEN "none"
  ELSE LET c == h.active[i]  claim == Get(in, "claim", in.party) IN
       IF c.addr.sock = in.from /\ ~c.hs /\ in.party = c.addr.id /\ claim = c.addr.id /\ in.from \in Socks(in.party)
       THEN Name("k", env.nk + 1) ELSE "none"

\* ---- resolution of a harness input.  `known` carries the names the harness chose (key, n, chal) when
\* validating a recorded trace; when generating behaviours they are predicted from the counters.
Resolve(h, env, in) ==
  CASE in.k = "AppRequest" -> [k |-> "AppRequest", peer |-> in.peer, addr |-> in.addr, rid |-> in.rid, enr |-> in.enr,
                               seq |-> IF in.enr THEN Get(in, "seq", 1) ELSE 0, body |-> Get(in, "body", "ping")]
    [] in.k = "AppResponse" -> [k |-> "AppResponse", peer |-> in.peer, addr |-> in.addr, xid |-> in.xid, body |-> Get(in, "body", "pong"), total |-> Get(in, "total", 1)]
    [] in.k = "AppWhoAreYou" ->
         LET i == FirstIdx(env.wru, LAMBDA w : w.ref = in.ref) IN
         IF i = 0 THEN [k |-> "Nop"]
         ELSE [k |-> "AppWhoAreYou", a |-> env.wru[i].a, n |-> env.wru[i].n, rec |-> RecOf(Get(in, "rec", "none"))]
    [] in.k = "PeerRandom" -> [k |-> "msg", from |-> in.from, src |-> in.claim, key |-> "none", n |-> Name("m", env.nm + 1), msg |-> [t |-> "junk"]]
    [] in.k = "PeerWhoAreYou" -> [k |-> "way", from |-> in.from, echo |-> in.echo, seq |-> Get(in, "seq", 1), key |-> WayKey(h, env, in),
                                  party |-> in.party, claim |-> Get(in, "claim", in.party)]
    [] in.k = "PeerHandshake" ->
         LET cands == {i \in 1..Len(env.froml) : env.froml[i].id = in.claim /\ (Get(in, "chal", "last") = "last" \/ env.froml[i].idn = in.chal)}
             exact == {i \in cands : env.froml[i].sock = in.from}
             pick  == IF Get(in, "chal", "last") = "last" /\ exact # {} THEN exact ELSE cands IN
         IF pick = {} THEN [k |-> "Nop"]
         ELSE [k |-> "hs", from |-> in.from, src |-> in.claim, chal |-> env.froml[CHOOSE i \in pick : \A j \in pick : j <= i].idn,
               signer |-> IF Get(in, "sig", "own") # "own" THEN "bad" ELSE in.party,     \* "bad" (another key), "zero64" / "junk0" / "junk63" (no signature at all)
               rec |-> RecOf(Get(in, "rec", "none")), recname |-> Get(in, "rec", "none"),
               key |-> Name("k", env.nk + 1), n |-> Name("m", env.nm + 1), msg |-> Msg(in.msg)]
    [] in.k = "PeerMessage" /\ Get(in, "key", "cur") = "zero" ->      \* sealed under a key nobody negotiated (the all-zero key), naming in.claim
         [k |-> "msg", from |-> in.from, src |-> in.claim, key |-> "zero", n |-> Name("m", env.nm + 1), msg |-> Msg(in.msg)]
    [] in.k = "PeerMessage" ->
         LET kid == IF Get(in, "key", "cur") = "cur" THEN CurKid(env, in.party) ELSE in.key IN
         IF kid = "none" \/ ClaimOf(env, kid) = "none" THEN [k |-> "Nop"]
         ELSE [k |-> "msg", from |-> in.from, src |-> ClaimOf(env, kid), key |-> kid, n |-> Name("m", env.nm + 1), msg |-> Msg(in.msg)]
    [] in.k = "Replay" -> IF in.idx \in 1..Len(env.inj)
                          THEN LET x == env.inj[in.idx] IN
                               \* a WHOAREYOU presented again (possibly from another socket): whether its author can derive the keys is decided now
                               IF x.k = "way" THEN [x EXCEPT !.from = in.from, !.key = WayKey(h, env, [party |-> x.party, claim |-> x.claim, echo |-> x.echo, from |-> in.from])]
                               ELSE [x EXCEPT !.from = in.from]
                          ELSE [k |-> "Nop"]
    [] in.k = "Reflect" -> IF in.idx \in 1..env.ncap THEN [k |-> "frame", from |-> in.from] ELSE [k |-> "Nop"]
    [] in.k = "PeerForget" -> [k |-> "Nop"]
    [] in.k = "Advance" -> [k |-> "Advance", ticks |-> in.ticks]
    [] in.k = "Quiesce" -> [k |-> "Advance", ticks |-> 4 * (TO + 1)]
    [] in.k = "AgeSessions" -> [k |-> "AgeSessions", units |-> in.units]
    [] OTHER -> [k |-> "Nop"]

\* ---- what the parties learn from the node's output of this step (harness: observe_out / observe_wire)
RECURSIVE ObsTx(_, _, _)
ObsTx(env, tx, wayin) ==
  IF tx = <<>> THEN env
  ELSE LET d == Head(tx)
           e1 == [env EXCEPT !.ncap = @ + 1]
           e2 == CASE d.kind = "way" -> [e1 EXCEPT !.froml = Append(@, [idn |-> d.idn, id |-> d.id, sock |-> d.to])]
                   [] d.kind = "hs" /\ ~d.re /\ d.key # "none" ->
                        [e1 EXCEPT !.nk = @ + 1, !.sess = Append(@, [party |-> wayin.party, kid |-> d.key, claimed |-> d.id]),
                                   !.mine = SelectSeq(@, LAMBDA c : ~(c.party = wayin.party /\ c.echo = wayin.echo)),
                                   !.seen = Append(@, [n |-> d.n, to |-> d.to, id |-> d.id, key |-> d.key, kind |-> d.kind])]
                   [] d.kind \in {"hs", "msg", "rand"} /\ ~d.re -> [e1 EXCEPT !.seen = Append(@, [n |-> d.n, to |-> d.to, id |-> d.id, key |-> d.key, kind |-> d.kind])]
                   [] OTHER -> e1
       IN ObsTx(e2, Tail(tx), wayin)
RECURSIVE ObsEv(_, _)
ObsEv(env, ev) ==
  IF ev = <<>> THEN env
  ELSE LET x == Head(ev) IN
       ObsEv(IF x.e = "WhoAreYou" THEN [env EXCEPT !.wru = Append(@, [ref |-> x.ref, a |-> Addr(x.id, x.addr), n |-> x.n])] ELSE env, Tail(ev))

\* env update for an input (before the node reacts) and for the node's reaction
EnvIn(env, in, rin) ==
  CASE in.k = "AppWhoAreYou" -> [env EXCEPT !.wru = SelectSeq(@, LAMBDA w : w.ref # in.ref)]
    [] in.k = "PeerRandom" -> [env EXCEPT !.nm = @ + 1, !.inj = Append(@, rin)]
    [] in.k = "PeerWhoAreYou" -> [env EXCEPT !.nj = @ + 1, !.inj = Append(@, rin),
                                            !.mine = Append(@, [party |-> in.party, claimed |-> Get(in, "claim", in.party), from |-> in.from, echo |-> in.echo, jid |-> Name("j", env.nj + 1)])]
    [] in.k = "PeerHandshake" /\ rin.k = "hs" ->
         [env EXCEPT !.nm = @ + 1, !.nk = @ + 1, !.inj = Append(@, rin), !.sess = Append(@, [party |-> in.party, kid |-> rin.key, claimed |-> in.claim])]
    [] in.k = "PeerMessage" /\ rin.k = "msg" -> [env EXCEPT !.nm = @ + 1, !.inj = Append(@, rin)]
    [] in.k \in {"Replay", "Reflect"} /\ rin.k # "Nop" -> [env EXCEPT !.inj = Append(@, rin)]
    [] in.k = "PeerForget" -> [env EXCEPT !.sess = SelectSeq(@, LAMBDA s : s.party # in.party)]
    [] OTHER -> env
\* (the author of a WHOAREYOU that is presented again is the party that made it)
EnvOut(env, in, h2) == ObsEv(ObsTx(env, h2.tx, IF in.k = "Replay" /\ in.idx \in 1..Len(env.inj) THEN env.inj[in.idx] ELSE in), h2.ev)
=============================================================================
