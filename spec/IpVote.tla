------------------------------- MODULE IpVote -------------------------------
(* External-address voting: src/service/ip_vote.rs (IpVote::insert, majority =                  *)
(* filter_stale_find_most_frequent) and the record update of handle_ip_vote_from_pong in          *)
(* src/service.rs - decides C17.  One address family; votes[v] = [addr, left] (left = ticks until  *)
(* the vote expires).                                                                              *)
EXTENDS Integers, Sequences, FiniteSets
CONSTANTS V, MIN, D, ADDRS      \* voters 1..V, minimum_threshold, vote duration (ticks), candidate addresses
Voters == 1..V
NoVote == [addr |-> "none", left |-> 0]
Live(vs) == {v \in Voters : vs[v].left > 0}
Count(vs, a) == Cardinality({v \in Live(vs) : vs[v].addr = a})
Thr(m) == (7 * m + 5) \div 10                \* round(0.7 m), a half rounds up
\* the declarative clear majority
IsWinner(vs, a) == Count(vs, a) >= MIN /\ \A b \in ADDRS \ {a} : Count(vs, b) < Thr(Count(vs, a))
Winner(vs) == IF \E a \in ADDRS : IsWinner(vs, a) /\ \A b \in ADDRS : Count(vs, a) >= Count(vs, b)
              THEN CHOOSE a \in ADDRS : IsWinner(vs, a) /\ \A b \in ADDRS : Count(vs, a) >= Count(vs, b) ELSE "none"
\* the code's single pass over the hash map in iteration order `ord` (max / second-max bookkeeping)
RECURSIVE Pass(_, _, _)
Pass(vs, ord, acc) ==
  IF ord = <<>> THEN acc ELSE
  LET v == Head(ord) IN
  IF vs[v].left = 0 THEN Pass(vs, Tail(ord), acc) ELSE
  LET a == vs[v].addr  c == acc.cnt[a] + 1  a1 == [acc EXCEPT !.cnt[a] = c] IN
  Pass(vs, Tail(ord),
       IF c > acc.max THEN [a1 EXCEPT !.second = IF acc.mv # "none" /\ acc.mv # a THEN acc.max ELSE @, !.max = c, !.mv = a]
       ELSE IF c > acc.second /\ a # acc.mv THEN [a1 EXCEPT !.second = c] ELSE a1)
CodeWinner(vs, ord) == LET r == Pass(vs, ord, [cnt |-> [a \in ADDRS |-> 0], max |-> 0, second |-> 0, mv |-> "none"]) IN
  IF r.max >= MIN THEN (IF r.second >= Thr(r.max) THEN "none" ELSE r.mv) ELSE "none"
\* a PONG from voter v reporting address a, then the update rule of handle_ip_vote_from_pong
PongStep(votes, local, v, a) ==
  LET vs == [votes EXCEPT ![v] = [addr |-> a, left |-> D]]  w == Winner(vs) IN
  [votes |-> vs, local |-> IF w # "none" /\ w # local THEN w ELSE local, updated |-> w # "none" /\ w # local]
=============================================================================
