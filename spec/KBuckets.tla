----------------------------- MODULE KBuckets -----------------------------
(* Specification of the Kademlia routing table: src/kbucket.rs, src/kbucket/bucket.rs,        *)
(* src/kbucket/entry.rs, src/kbucket/filter.rs (decides C07, C08, C16).                        *)
(*                                                                                             *)
(* Keys are integers 1 .. 2^bits-1 = the XOR distance of the node id to the local id (0 is     *)
(* the local node).  The harness embeds them into 256-bit ids by placing bit j of the model     *)
(* key at bit phi(j) of (id XOR local), phi strictly increasing; this preserves the XOR order   *)
(* and maps model bucket j to real bucket phi(j).                                               *)
(*                                                                                             *)
(* State  tb : [0..bits-1 -> [nodes : Seq(node), fcp : Int (-1 = None, 0-based), pend]]         *)
(*        node = [key, val = [k, sub, ver], st \in {"C","D"}, dr \in {"I","O"}]                 *)
(*        pend = [on |-> FALSE]  or  [on |-> TRUE, node, at]  (at = ticks until eligible)       *)
(* cfg = [K, maxin, bl, tl, pt, bits]  (bl/tl = per-bucket / per-table subnet limits, 0 = off)  *)
(* Every public operation is a case of Step(tb, cfg, op) = [tb, ret]; helper operators follow   *)
(* the code's functions one to one (BInsert = KBucket::insert, BApply = apply_pending, ...).    *)
EXTENDS Integers, Sequences, FiniteSets

NoPend == [on |-> FALSE]
IsFailed(r) == r \in {"Failed(TooManyIncoming)", "Failed(BucketFilter)", "Failed(KeyNonExistent)", "Failed(TableFilter)", "Failed(BucketFull)"}
KRemoveAt(q, i) == SubSeq(q, 1, i - 1) \o SubSeq(q, i + 1, Len(q))           \* 1-based
KInsertAt(q, i, x) == SubSeq(q, 1, i - 1) \o <<x>> \o SubSeq(q, i, Len(q))   \* x lands at 1-based position i
Pos(bk, k) == IF \E i \in 1..Len(bk.nodes) : bk.nodes[i].key = k
              THEN CHOOSE i \in 1..Len(bk.nodes) : bk.nodes[i].key = k ELSE 0
BVals(bk) == [i \in 1..Len(bk.nodes) |-> bk.nodes[i].val]

RECURSIVE Pow2(_)
Pow2(n) == IF n = 0 THEN 1 ELSE 2 * Pow2(n - 1)
Bit(x, i) == (x \div Pow2(i)) % 2
RECURSIVE Msb(_)
Msb(x) == IF x <= 1 THEN 0 ELSE 1 + Msb(x \div 2)      \* index of the highest set bit, x >= 1
RECURSIVE XorN(_, _, _)
XorN(a, b, n) == IF n = 0 THEN 0 ELSE ((a + b) % 2) + 2 * XorN(a \div 2, b \div 2, n - 1)
Xor(a, b, bits) == XorN(a, b, bits)
BucketOf(k) == Msb(k)

\* ---- src/kbucket/filter.rs : ip_filter (count reaches the limit => refuse; equal records are skipped)
IpFilter(v, vals, limit) ==
  IF limit = 0 \/ v.sub = "n" THEN TRUE
  ELSE Cardinality({i \in 1..Len(vals) : vals[i] # v /\ vals[i].sub = v.sub}) < limit
MaxIncoming(bk, cfg) ==
  Cardinality({i \in 1..Len(bk.nodes) : bk.nodes[i].st = "C" /\ bk.nodes[i].dr = "I"}) >= cfg.maxin

\* ---- KBucket::insert
BInsert(bk, node, cfg) ==
  IF Pos(bk, node.key) # 0 THEN [bk |-> bk, res |-> "NodeExists"]
  ELSE IF ~IpFilter(node.val, BVals(bk), cfg.bl) THEN [bk |-> bk, res |-> "FailedFilter"]
  ELSE LET insPend == bk.pend.on /\ bk.pend.node.key = node.key
           clr(p)  == IF insPend THEN NoPend ELSE p IN
    IF node.st = "C" THEN
       IF node.dr = "I" /\ MaxIncoming(bk, cfg) THEN [bk |-> bk, res |-> "TooManyIncoming"]
       ELSE IF Len(bk.nodes) = cfg.K THEN
            IF bk.fcp = 0 \/ bk.pend.on THEN [bk |-> bk, res |-> "Full"]
            ELSE [bk |-> [bk EXCEPT !.pend = [on |-> TRUE, node |-> node, at |-> cfg.pt]], res |-> "Pending"]
       ELSE [bk |-> [bk EXCEPT !.nodes = Append(@, node), !.fcp = IF @ = -1 THEN Len(bk.nodes) ELSE @,
                               !.pend = clr(@)], res |-> "Inserted"]
    ELSE IF Len(bk.nodes) = cfg.K THEN [bk |-> bk, res |-> "Full"]
       ELSE IF bk.fcp # -1
            THEN [bk |-> [bk EXCEPT !.nodes = KInsertAt(@, bk.fcp + 1, node), !.fcp = @ + 1, !.pend = clr(@)], res |-> "Inserted"]
            ELSE [bk |-> [bk EXCEPT !.nodes = Append(@, node), !.pend = clr(@)], res |-> "Inserted"]

\* ---- KBucket::apply_pending  (the pending node is *taken*; it is put back only if not yet eligible)
BApply(bk, cfg) ==
  IF ~bk.pend.on \/ bk.pend.at > 0 THEN bk
  ELSE LET p == bk.pend.node  b0 == [bk EXCEPT !.pend = NoPend] IN
    IF Len(b0.nodes) = cfg.K THEN
       IF b0.nodes[1].st = "C" THEN b0
       ELSE IF ~IpFilter(p.val, BVals(b0), cfg.bl) THEN b0
       ELSE IF p.st = "C" /\ p.dr = "I" /\ MaxIncoming(b0, cfg) THEN b0
       ELSE IF p.st = "C"
            THEN [b0 EXCEPT !.nodes = Append(Tail(@), p), !.fcp = IF @ = -1 THEN cfg.K - 1 ELSE @ - 1]
            ELSE IF b0.fcp # -1
                 THEN (IF b0.fcp >= 1 THEN [b0 EXCEPT !.nodes = KInsertAt(Tail(@), b0.fcp, p)] ELSE b0)
                 ELSE [b0 EXCEPT !.nodes = Append(Tail(@), p)]
    ELSE BInsert(b0, p, cfg).bk

\* update_first_connected_pos_for_removal (pos0 0-based, bk.nodes already without the node)
FcpAfterRemoval(bk, pos0) ==
  IF bk.fcp = -1 THEN -1 ELSE IF pos0 < bk.fcp THEN bk.fcp - 1 ELSE IF bk.fcp < Len(bk.nodes) THEN bk.fcp ELSE -1

\* ---- KBucket::update_status   (dr = "-" is None)
BUpdateStatus(bk, k, st, dr, cfg) ==
  LET i == Pos(bk, k) IN
  IF i # 0 THEN
    LET old  == bk.nodes[i]
        nn   == [old EXCEPT !.st = st, !.dr = IF dr = "-" THEN @ ELSE dr]
        rest == KRemoveAt(bk.nodes, i)
        fcp1 == IF old.st = "C" THEN (IF bk.fcp = i - 1 /\ i - 1 = Len(rest) THEN -1 ELSE bk.fcp)
                ELSE (IF bk.fcp <= 0 THEN -1 ELSE bk.fcp - 1)
        b1   == [bk EXCEPT !.nodes = rest, !.fcp = fcp1, !.pend = IF i = 1 /\ st = "C" THEN NoPend ELSE @]
        r    == BInsert(b1, nn, cfg)
    IN [bk |-> r.bk,
        res |-> CASE r.res = "Inserted" -> (IF old.st = nn.st /\ old.dr = nn.dr THEN "NotModified"
                                            ELSE IF old.st = "D" /\ st = "C" THEN "UpdatedAndPromoted" ELSE "Updated")
                  [] r.res = "TooManyIncoming" -> "Failed(TooManyIncoming)"
                  [] r.res = "FailedFilter" -> "Failed(BucketFilter)"
                  [] OTHER -> "unreachable"]
  ELSE IF bk.pend.on /\ bk.pend.node.key = k
       THEN [bk |-> [bk EXCEPT !.pend.node.st = st, !.pend.node.dr = IF dr = "-" THEN @ ELSE dr], res |-> "UpdatedPending"]
       ELSE [bk |-> bk, res |-> "Failed(KeyNonExistent)"]

\* ---- KBucket::update_value
BUpdateValue(bk, k, v, cfg) ==
  LET i == Pos(bk, k) IN
  IF i # 0 THEN
     IF bk.nodes[i].val = v THEN [bk |-> bk, res |-> "NotModified"]
     ELSE LET rest == [bk EXCEPT !.nodes = KRemoveAt(@, i)] IN
          IF ~IpFilter(v, BVals(rest), cfg.bl)
          THEN [bk |-> [rest EXCEPT !.fcp = FcpAfterRemoval(rest, i - 1)], res |-> "Failed(BucketFilter)"]
          ELSE [bk |-> [bk EXCEPT !.nodes[i].val = v], res |-> "Updated"]
  ELSE IF bk.pend.on /\ bk.pend.node.key = k THEN [bk |-> [bk EXCEPT !.pend.node.val = v], res |-> "UpdatedPending"]
       ELSE [bk |-> bk, res |-> "Failed(KeyNonExistent)"]

\* ---- KBucket::remove  (a key that is only pending is *not* removed)
BRemove(bk, k, cfg) ==
  LET i == Pos(bk, k) IN
  IF i = 0 THEN [bk |-> bk, res |-> FALSE]
  ELSE LET rest == [bk EXCEPT !.nodes = KRemoveAt(@, i)] IN
       [bk |-> BApply([rest EXCEPT !.fcp = FcpAfterRemoval(rest, i - 1)], cfg), res |-> TRUE]

\* ---------------------------------------------------------------------------- src/kbucket.rs
Buckets(cfg) == 0..(cfg.bits - 1)
RECURSIVE Concat(_, _, _)
Concat(f, lo, hi) == IF lo > hi THEN <<>> ELSE f[lo] \o Concat(f, lo + 1, hi)
\* table_iter: stored nodes and (`fix: C16`) the pending slots
TableVals(tb, cfg) ==
  Concat([b \in Buckets(cfg) |-> BVals(tb[b]) \o (IF tb[b].pend.on THEN <<tb[b].pend.node.val>> ELSE <<>>)], 0, cfg.bits - 1)
Dup(tb, k, v) == LET i == Pos(tb[BucketOf(k)], k) IN i # 0 /\ tb[BucketOf(k)].nodes[i].val = v
PassTable(tb, cfg, k, v) == cfg.tl = 0 \/ Dup(tb, k, v) \/ IpFilter(v, TableVals(tb, cfg), cfg.tl)

Val(op) == [k |-> op.k, sub |-> op.sub, ver |-> op.ver]
Node(op) == [key |-> op.k, val |-> Val(op), st |-> op.st, dr |-> op.dr]

InsertOrUpdate(tb, cfg, op) ==
  LET k == op.k  b == BucketOf(k)  pass == PassTable(tb, cfg, k, Val(op))  bk0 == BApply(tb[b], cfg) IN
  IF ~pass THEN [tb |-> [tb EXCEPT ![b] = BRemove(bk0, k, cfg).bk], ret |-> "Failed(TableFilter)"]
  ELSE IF Pos(bk0, k) = 0
       THEN LET r == BInsert(bk0, Node(op), cfg) IN
            [tb |-> [tb EXCEPT ![b] = r.bk],
             ret |-> CASE r.res = "Full" -> "Failed(BucketFull)" [] r.res = "TooManyIncoming" -> "Failed(TooManyIncoming)"
                       [] r.res = "FailedFilter" -> "Failed(BucketFilter)" [] OTHER -> r.res]
  ELSE LET r1 == BUpdateStatus(bk0, k, op.st, op.dr, cfg) IN
       IF IsFailed(r1.res) THEN [tb |-> [tb EXCEPT ![b] = r1.bk], ret |-> "Failed(TooManyIncoming)"]
       ELSE LET r2 == BUpdateValue(r1.bk, k, Val(op), cfg)  u == r2.res  s == r1.res IN
            [tb |-> [tb EXCEPT ![b] = r2.bk],
             ret |-> CASE u = "Updated" /\ s = "Updated" -> "Updated(false)"
                       [] u = "Updated" /\ s = "UpdatedAndPromoted" -> "Updated(true)"
                       [] u = "Updated" /\ s \in {"NotModified", "UpdatedPending"} -> "ValueUpdated"
                       [] u = "NotModified" /\ s = "Updated" -> "StatusUpdated(false)"
                       [] u = "NotModified" /\ s = "UpdatedAndPromoted" -> "StatusUpdated(true)"
                       [] u = "NotModified" /\ s = "NotModified" -> "Updated(false)"
                       [] u = "UpdatedPending" \/ s = "UpdatedPending" -> "UpdatedPending"
                       [] OTHER -> u]

\* update_node(key, value, state)   op.st \in {"C","D","-"}
UpdateNode(tb, cfg, op) ==
  LET k == op.k  b == BucketOf(k)  pass == PassTable(tb, cfg, k, Val(op))  bk0 == BApply(tb[b], cfg) IN
  IF ~pass THEN [tb |-> [tb EXCEPT ![b] = BRemove(bk0, k, cfg).bk], ret |-> "Failed(TableFilter)"]
  ELSE LET r1 == BUpdateValue(bk0, k, Val(op), cfg) IN
       IF IsFailed(r1.res) THEN [tb |-> [tb EXCEPT ![b] = r1.bk], ret |-> r1.res]
       ELSE LET r2 == IF op.st = "-" THEN [bk |-> r1.bk, res |-> "NotModified"] ELSE BUpdateStatus(r1.bk, k, op.st, "-", cfg)
                u == r1.res  s == r2.res IN
            [tb |-> [tb EXCEPT ![b] = r2.bk],
             ret |-> CASE IsFailed(s) -> s
                       [] s = "UpdatedAndPromoted" -> "UpdatedAndPromoted"
                       [] u = "UpdatedPending" \/ s = "UpdatedPending" -> "UpdatedPending"
                       [] u = "NotModified" /\ s = "NotModified" -> "NotModified"
                       [] OTHER -> "Updated"]

UpdateNodeStatus(tb, cfg, op) ==
  LET b == BucketOf(op.k)  r == BUpdateStatus(BApply(tb[b], cfg), op.k, op.st, op.dr, cfg) IN
  [tb |-> [tb EXCEPT ![b] = r.bk], ret |-> r.res]

TRemove(tb, cfg, op) ==
  LET b == BucketOf(op.k)  r == BRemove(BApply(tb[b], cfg), op.k, cfg) IN
  [tb |-> [tb EXCEPT ![b] = r.bk], ret |-> IF r.res THEN "true" ELSE "false"]

\* entry(key) then AbsentEntry::insert / PresentEntry::update / PendingEntry::update / *::remove
EntryKind(bk, k) == IF Pos(bk, k) # 0 THEN "Present" ELSE IF bk.pend.on /\ bk.pend.node.key = k THEN "Pending" ELSE "Absent"
EntInsert(tb, cfg, op) ==
  LET b == BucketOf(op.k)  bk0 == BApply(tb[b], cfg)  kind == EntryKind(bk0, op.k) IN
  IF kind # "Absent" THEN [tb |-> [tb EXCEPT ![b] = bk0], ret |-> kind]
  ELSE LET r == BInsert(bk0, Node(op), cfg) IN [tb |-> [tb EXCEPT ![b] = r.bk], ret |-> r.res]
EntUpdate(tb, cfg, op) ==
  LET b == BucketOf(op.k)  bk0 == BApply(tb[b], cfg)  kind == EntryKind(bk0, op.k) IN
  IF kind = "Absent" THEN [tb |-> [tb EXCEPT ![b] = bk0], ret |-> kind]
  ELSE IF kind = "Present"
       THEN LET r == BUpdateStatus(bk0, op.k, op.st, op.dr, cfg) IN
            [tb |-> [tb EXCEPT ![b] = r.bk], ret |-> IF IsFailed(r.res) THEN r.res ELSE "Ok"]
       ELSE [tb |-> [tb EXCEPT ![b] = [bk0 EXCEPT !.pend.node.st = op.st, !.pend.node.dr = IF op.dr = "-" THEN @ ELSE op.dr]], ret |-> "OkPending"]
EntRemove(tb, cfg, op) ==
  LET b == BucketOf(op.k)  bk0 == BApply(tb[b], cfg)  kind == EntryKind(bk0, op.k) IN
  [tb |-> [tb EXCEPT ![b] = BRemove(bk0, op.k, cfg).bk], ret |-> kind]

ApplyAll(tb, cfg) == [b \in Buckets(cfg) |-> BApply(tb[b], cfg)]
AllNodes(tb, cfg) == Concat([b \in Buckets(cfg) |-> tb[b].nodes], 0, cfg.bits - 1)
Iter(tb, cfg) == LET t2 == ApplyAll(tb, cfg) IN
  [tb |-> t2, ret |-> [i \in 1..Len(AllNodes(t2, cfg)) |-> AllNodes(t2, cfg)[i].key]]

TickOp(tb, cfg, op) ==
  [tb |-> [b \in Buckets(cfg) |-> IF tb[b].pend.on THEN [tb[b] EXCEPT !.pend.at = IF @ > op.d THEN @ - op.d ELSE 0] ELSE tb[b]],
   ret |-> "ok"]

\* ---- ClosestBucketsIter: Start(i) -> ZoomIn -> ZoomOut -> Done, transcribed as the visiting sequence.
\* next_in(i): highest j < i with bit j of the distance set; next_out(i): lowest j > i with bit j clear.
NextIn(d, i) == IF \E j \in 0..(i - 1) : Bit(d, j) = 1 THEN CHOOSE j \in 0..(i - 1) : Bit(d, j) = 1 /\ \A h \in (j + 1)..(i - 1) : Bit(d, h) = 0 ELSE -1
NextOut(d, i, bits) == IF \E j \in (i + 1)..(bits - 1) : Bit(d, j) = 0 THEN CHOOSE j \in (i + 1)..(bits - 1) : Bit(d, j) = 0 /\ \A h \in (i + 1)..(j - 1) : Bit(d, h) = 1 ELSE -1
RECURSIVE ZoomOut(_, _, _)
ZoomOut(d, i, bits) == LET j == NextOut(d, i, bits) IN IF j = -1 THEN <<>> ELSE <<j>> \o ZoomOut(d, j, bits)
RECURSIVE ZoomIn(_, _, _)
ZoomIn(d, i, bits) == LET j == NextIn(d, i) IN
  IF j # -1 THEN <<j>> \o ZoomIn(d, j, bits)
  ELSE IF i = 0 THEN ZoomOut(d, 0, bits)            \* `fix: C08`: bucket 0 was just yielded, do not yield it twice
  ELSE <<0>> \o ZoomOut(d, 0, bits)
BucketOrder(d, bits) == LET i == IF d = 0 THEN 0 ELSE Msb(d) IN <<i>> \o ZoomIn(d, i, bits)

\* sort of one bucket's nodes by XOR distance to the target (keys are distinct => strict order)
RECURSIVE SortByDist(_, _, _)
SortByDist(S, t, bits) ==
  IF S = {} THEN <<>>
  ELSE LET m == CHOOSE x \in S : \A y \in S : Xor(x.key, t, bits) <= Xor(y.key, t, bits)
       IN <<m>> \o SortByDist(S \ {m}, t, bits)
SeqSet(q) == {q[i] : i \in 1..Len(q)}
\* ClosestIter: visit buckets in BucketOrder, apply the bucket's pending node, emit its nodes sorted
RECURSIVE ClosestWalk(_, _, _, _, _)
ClosestWalk(tb, cfg, t, order, acc) ==
  IF order = <<>> THEN [tb |-> tb, out |-> acc]
  ELSE LET b == Head(order)  bk == BApply(tb[b], cfg) IN
       ClosestWalk([tb EXCEPT ![b] = bk], cfg, t, Tail(order), acc \o SortByDist(SeqSet(bk.nodes), t, cfg.bits))
Pred(v) == v.sub # "n"
Closest(tb, cfg, op) ==
  LET w == ClosestWalk(tb, cfg, op.t, BucketOrder(op.t, cfg.bits), <<>>) IN
  [tb |-> w.tb, ret |-> [i \in 1..Len(w.out) |-> IF op.o = "closest_pred" THEN <<w.out[i].key, Pred(w.out[i].val)>> ELSE w.out[i].key]]

\* nodes_by_distances(ds, max): ds are log2 distances in *model* numbering (bucket index + 1); 0 and
\* values > bits stand for "0" and "out of range" and are filtered
RECURSIVE NbdApply(_, _, _, _, _)
NbdApply(tb, cfg, ds, max, count) ==
  IF ds = <<>> THEN tb
  ELSE LET b == Head(ds) - 1  bk == BApply(tb[b], cfg)  applied == (bk # tb[b] /\ tb[b].pend.on /\ ~bk.pend.on /\ Pos(bk, tb[b].pend.node.key) # 0)
           t2 == [tb EXCEPT ![b] = bk]
           c2 == IF applied THEN count + Len(bk.nodes) ELSE count IN
       IF applied /\ c2 >= max THEN t2 ELSE NbdApply(t2, cfg, Tail(ds), max, c2)
RECURSIVE NbdCollect(_, _, _, _)
NbdCollect(tb, ds, max, acc) ==
  IF ds = <<>> \/ Len(acc) >= max THEN SubSeq(acc, 1, IF Len(acc) > max THEN max ELSE Len(acc))
  ELSE NbdCollect(tb, Tail(ds), max, acc \o [i \in 1..Len(tb[Head(ds) - 1].nodes) |-> tb[Head(ds) - 1].nodes[i].key])
ValidDs(ds, cfg) == SelectSeq(ds, LAMBDA d : d > 0 /\ d <= cfg.bits)
Nbd(tb, cfg, op) ==
  LET ds == ValidDs(op.ds, cfg)  t2 == NbdApply(tb, cfg, ds, op.max, 0) IN
  [tb |-> t2, ret |-> NbdCollect(t2, ds, op.max, <<>>)]        \* op.max >= 1

Step(tb, cfg, op) ==
  CASE op.o = "iou"     -> InsertOrUpdate(tb, cfg, op)
    [] op.o = "un"      -> UpdateNode(tb, cfg, op)
    [] op.o = "uns"     -> UpdateNodeStatus(tb, cfg, op)
    [] op.o = "rm"      -> TRemove(tb, cfg, op)
    [] op.o = "ent_ins" -> EntInsert(tb, cfg, op)
    [] op.o = "ent_upd" -> EntUpdate(tb, cfg, op)
    [] op.o = "ent_rm"  -> EntRemove(tb, cfg, op)
    [] op.o = "iter"    -> Iter(tb, cfg)
    [] op.o \in {"closest", "closest_pred"} -> Closest(tb, cfg, op)
    [] op.o = "nbd"     -> Nbd(tb, cfg, op)
    [] op.o = "tick"    -> TickOp(tb, cfg, op)

EmptyTable(cfg) == [b \in Buckets(cfg) |-> [nodes |-> <<>>, fcp |-> -1, pend |-> NoPend]]

\* =============================================================== property formulas on a table
Ns(tb, b) == tb[b].nodes
\* ---- C07 (state part)
C07Cap(tb, cfg)    == \A b \in Buckets(cfg) : Len(Ns(tb, b)) <= cfg.K
C07Place(tb, cfg)  == \A b \in Buckets(cfg) : \A i \in 1..Len(Ns(tb, b)) : Ns(tb, b)[i].key # 0 /\ BucketOf(Ns(tb, b)[i].key) = b
KeysOf(tb, b) == [i \in 1..Len(Ns(tb, b)) |-> Ns(tb, b)[i].key] \o (IF tb[b].pend.on THEN <<tb[b].pend.node.key>> ELSE <<>>)
C07Unique(tb, cfg) == \A b \in Buckets(cfg) : \A i, j \in 1..Len(KeysOf(tb, b)) : i # j => KeysOf(tb, b)[i] # KeysOf(tb, b)[j]
C07Groups(tb, cfg) == \A b \in Buckets(cfg) : \A i, j \in 1..Len(Ns(tb, b)) : i < j => ~(Ns(tb, b)[i].st = "C" /\ Ns(tb, b)[j].st = "D")
C07Incoming(tb, cfg) == \A b \in Buckets(cfg) :
   Cardinality({i \in 1..Len(Ns(tb, b)) : Ns(tb, b)[i].st = "C" /\ Ns(tb, b)[i].dr = "I"}) <= cfg.maxin
\* internal consistency of first_connected_pos (not an observable; strict conformance only)
FcpOk(tb, cfg) == \A b \in Buckets(cfg) : LET f == tb[b].fcp n == Len(Ns(tb, b)) IN
   /\ (f = -1 => \A i \in 1..n : Ns(tb, b)[i].st = "D")
   /\ (f # -1 => f < n /\ \A i \in 1..n : (Ns(tb, b)[i].st = "C") <=> (i - 1 >= f))
\* ---- C16
SubCount(vals, s) == Cardinality({i \in 1..Len(vals) : vals[i].sub = s})
StoredVals(tb, cfg) == Concat([b \in Buckets(cfg) |-> BVals(tb[b])], 0, cfg.bits - 1)
C16Bucket(tb, cfg, subs) == cfg.bl = 0 \/ \A b \in Buckets(cfg) : \A s \in subs : SubCount(BVals(tb[b]), s) <= cfg.bl
C16Table(tb, cfg, subs)  == cfg.tl = 0 \/ \A s \in subs : SubCount(StoredVals(tb, cfg), s) <= cfg.tl

\* ---- C07 ordering by time of last status report.  `stamp` is a ledger kept from operations and
\* observed tables only: an operation that reports a status for its key (insert_or_update,
\* update_node_status, update_node with a state, the Entry insert/update calls) stamps that key;
\* a node promoted from the pending slot is stamped at its promotion (DESIGN 5/C07).
StatusOps == {"iou", "uns", "ent_ins", "ent_upd"}
IsStatusReport(op) == op.o \in StatusOps \/ (op.o = "un" /\ op.st # "-")
\* the call actually (re)positioned its key: Entry::insert on a present key, for instance, does nothing
Reported(op, ret) == /\ IsStatusReport(op)
                     /\ (op.o = "ent_ins" => ret = "Inserted") /\ (op.o = "ent_upd" => ret = "Ok")
NodeKeys(tb, cfg) == {AllNodes(tb, cfg)[i].key : i \in 1..Len(AllNodes(tb, cfg))}
StampStep(stamp, n, pre, post, cfg, op, ret) ==
  LET pk == NodeKeys(pre, cfg)  qk == NodeKeys(post, cfg) IN
  [k \in qk |-> IF "k" \in DOMAIN op /\ k = op.k /\ Reported(op, ret) THEN 2 * n + 1
                ELSE IF k \notin pk THEN 2 * n
                ELSE stamp[k]]
C07Order(tb, cfg, stamp) == \A b \in Buckets(cfg) : \A i, j \in 1..Len(Ns(tb, b)) :
   (i < j /\ Ns(tb, b)[i].st = Ns(tb, b)[j].st) => stamp[Ns(tb, b)[i].key] <= stamp[Ns(tb, b)[j].key]

\* ---- C07 pending-slot rules, on one observed step pre -> post of bucket b
OpKey(op) == IF "k" \in DOMAIN op THEN op.k ELSE 0
BKeys(tb, b) == {Ns(tb, b)[i].key : i \in 1..Len(Ns(tb, b))}
Promoted(pre, post, b, op) ==
  /\ pre[b].pend.on /\ pre[b].pend.node.key \notin BKeys(pre, b) /\ pre[b].pend.node.key \in BKeys(post, b)
  /\ ~(OpKey(op) = pre[b].pend.node.key /\ op.o \in {"iou", "ent_ins"})      \* direct insertion of the pending key itself
\* (i) promotion only after the timeout
C07PendTimeout(pre, post, cfg, op) == \A b \in Buckets(cfg) : Promoted(pre, post, b, op) => pre[b].pend.at = 0
\* (ii) into a bucket that stays full: exactly by evicting position 0, which is disconnected
C07PendEvict(pre, post, cfg, op) == \A b \in Buckets(cfg) :
  (Promoted(pre, post, b, op) /\ Len(Ns(pre, b)) = cfg.K) =>
     LET gone == BKeys(pre, b) \ BKeys(post, b) IN
       \/ gone \subseteq {OpKey(op)}                                             \* the operation itself removed its key
       \/ (gone \ {OpKey(op)} = {Ns(pre, b)[1].key} /\ Ns(pre, b)[1].st = "D")
\* (iii) discarded if the least-recently-active node reconnects before the timeout
C07PendDiscard(pre, post, cfg, op, ret) == \A b \in Buckets(cfg) :
  (/\ pre[b].pend.on /\ pre[b].pend.at > 0 /\ Len(Ns(pre, b)) >= 1
   /\ OpKey(op) = Ns(pre, b)[1].key /\ Reported(op, ret) /\ op.st = "C"
   /\ \E i \in 1..Len(Ns(post, b)) : Ns(post, b)[i].key = OpKey(op) /\ Ns(post, b)[i].st = "C")
  => (~post[b].pend.on /\ pre[b].pend.node.key \notin BKeys(post, b))
\* no node disappears from a bucket except by the operation on its own key or by eviction for the pending node
C07NoLoss(pre, post, cfg, op) == \A b \in Buckets(cfg) :
  LET gone == (BKeys(pre, b) \ BKeys(post, b)) \ {OpKey(op)} IN
    gone = {} \/ (/\ pre[b].pend.on /\ pre[b].pend.at = 0 /\ Len(Ns(pre, b)) = cfg.K
                  /\ Ns(pre, b)[1].st = "D" /\ gone = {Ns(pre, b)[1].key})

\* ---- C08 on one observed call: result vs the full scan of the table after the call
IsSortedBy(q, t, bits) == \A i \in 1..(Len(q) - 1) : Xor(q[i], t, bits) < Xor(q[i + 1], t, bits)
C08Closest(post, cfg, op, keys) ==
  /\ IsSortedBy(keys, op.t, cfg.bits)
  /\ {keys[i] : i \in 1..Len(keys)} = NodeKeys(post, cfg) /\ Len(keys) = Cardinality(NodeKeys(post, cfg))
C08Flags(post, cfg, ret) == \A i \in 1..Len(ret) :
  \E b \in Buckets(cfg) : \E j \in 1..Len(Ns(post, b)) : Ns(post, b)[j].key = ret[i][1] /\ ret[i][2] = Pred(Ns(post, b)[j].val)
C08Nbd(post, cfg, op, keys) ==
  LET ds == ValidDs(op.ds, cfg)
      want == UNION {BKeys(post, ds[i] - 1) : i \in 1..Len(ds)} IN
  /\ \A i \in 1..Len(keys) : keys[i] \in want
  /\ \A i, j \in 1..Len(keys) : i # j => keys[i] # keys[j]
  /\ Len(keys) = (IF Cardinality(want) < op.max THEN Cardinality(want) ELSE op.max)
=============================================================================
