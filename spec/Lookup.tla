------------------------------- MODULE Lookup -------------------------------
(* A lookup of the running service = the query state machine of Query.tla driven by the service  *)
(* loop (src/service.rs: query_event_poll / send_rpc_query / the NODES and failure paths /        *)
(* QueryEvent::Finished | TimedOut) and the pool (src/query_pool.rs: QueryPool::poll).            *)
(* Peers are their ranks in XOR distance to the target.  One step of the service = one event       *)
(* applied to the query, then polling until the pool has nothing more to hand out.                 *)
EXTENDS Integers, Sequences, FiniteSets
Q == INSTANCE Query

\* QueryPool::poll + the service loop: hand out peers while there are any; a query that waits is cut off by the query time-out
RECURSIVE PollR(_, _, _, _, _)
PollR(q, now, started, qto, acc) ==
  LET r == Q!QNext(q, now) IN
  IF r.ret = "contact" THEN PollR(r.q, now, started, qto, Append(acc, r.peer))
  ELSE [q |-> r.q, contacts |-> acc,
        fin |-> r.ret = "Finished" \/ (r.ret \in {"Waiting", "WaitingAtCapacity"} /\ now - started >= qto),
        timedout |-> r.ret # "Finished"]
Poll(l, now) == LET r == PollR(l.q, now, l.started, l.qto, <<>>) IN
  [l |-> [l EXCEPT !.q = r.q, !.on = ~r.fin], contacts |-> r.contacts, fin |-> r.fin, result |-> IF r.fin THEN Q!Result(r.q) ELSE <<>>]
\* two rounds (the step "age" of the harness ends with a wake-up): the poll that notices elapsed peer time-outs does not use the freed capacity
Poll2(l, now) == LET a == Poll(l, now) IN
  IF a.fin THEN a ELSE LET b == Poll(a.l, now) IN [b EXCEPT !.contacts = a.contacts \o b.contacts]

L0 == [on |-> FALSE, q |-> <<>>, started |-> 0, qto |-> 0, call |-> "", spoiled |-> FALSE]
Start(cfg, cands, now, qto, call) == [on |-> TRUE, q |-> Q!New(cfg, cands), started |-> now, qto |-> qto, call |-> call, spoiled |-> FALSE]
Success(l, p, news) == [l EXCEPT !.q = Q!OnSuccess(@, p, news)]
Failure(l, p) == [l EXCEPT !.q = Q!OnFailure(@, p)]
=============================================================================
