--------------------------- MODULE LruTimeCache ---------------------------
(* Specification of src/lru_time_cache.rs (the handler's session cache).          *)
(*                                                                               *)
(* The cache is a LinkedHashMap<K,(V,Instant)> + ttl + capacity.  State here:    *)
(*   q   : sequence of [k, v, age] records, front = least recently used          *)
(*   cfg : [cap, ttl]                                                             *)
(* Time is an explicit `tick` operation that adds to every age (the harness       *)
(* implements it with the `verif_age` hook).  An entry is *live* iff age <= ttl   *)
(* (code: `time + ttl >= now`).                                                   *)
(*                                                                               *)
(* Every public operation of the code is one case of Step(q, cfg, op), a pure     *)
(* function returning the new state and the return value, so that the same        *)
(* definition serves model checking (MC_Lru), behaviour generation and trace      *)
(* validation (Trace_Lru).                                                        *)
EXTENDS Integers, Sequences, FiniteSets

Idx(q, k) == IF \E i \in 1..Len(q) : q[i].k = k
             THEN CHOOSE i \in 1..Len(q) : q[i].k = k ELSE 0
Without(q, i) == SubSeq(q, 1, i - 1) \o SubSeq(q, i + 1, Len(q))
Live(cfg, e) == e.age <= cfg.ttl

RECURSIVE DropExpired(_, _)
DropExpired(cfg, q) == IF q # <<>> /\ ~Live(cfg, Head(q)) THEN DropExpired(cfg, Tail(q)) ELSE q
RECURSIVE ExpiredPrefix(_, _)
ExpiredPrefix(cfg, q) == IF q # <<>> /\ ~Live(cfg, Head(q)) THEN <<Head(q).k>> \o ExpiredPrefix(cfg, Tail(q)) ELSE <<>>

None == [hit |-> FALSE, v |-> 0]
Some(v) == [hit |-> TRUE, v |-> v]

\* fn insert: LinkedHashMap::insert replaces in place *and moves to the back*; then pop_front if over capacity.
Insert(q, cfg, k, v) ==
  LET i  == Idx(q, k)
      q1 == Append(IF i = 0 THEN q ELSE Without(q, i), [k |-> k, v |-> v, age |-> 0])
  IN IF Len(q1) > cfg.cap THEN [q |-> Tail(q1), ret |-> None] ELSE [q |-> q1, ret |-> None]

\* fn get_mut / get: an expired entry is not returned (`fix: C15`) -- it stays in the map until
\* remove_expired_values reports it; otherwise refresh stamp, move to back.
GetMut(q, cfg, k) ==
  LET i == Idx(q, k) IN
  IF i = 0 THEN [q |-> q, ret |-> None]
  ELSE IF ~Live(cfg, q[i]) THEN [q |-> q, ret |-> None]
  ELSE [q |-> Append(Without(q, i), [q[i] EXCEPT !.age = 0]), ret |-> Some(q[i].v)]

\* fn peek: no refresh, no reorder, expired => None
Peek(q, cfg, k) ==
  LET i == Idx(q, k) IN
  IF i # 0 /\ Live(cfg, q[i]) THEN [q |-> q, ret |-> Some(q[i].v)] ELSE [q |-> q, ret |-> None]

Remove(q, cfg, k) ==
  LET i == Idx(q, k) IN
  IF i = 0 THEN [q |-> q, ret |-> None] ELSE [q |-> Without(q, i), ret |-> Some(q[i].v)]

\* fn remove_expired_values: pops expired entries from the *front* only (the order is by last use, so
\* the expired ones form a prefix -- invariant AgeOrdered below).
RemoveExpired(q, cfg) == [q |-> DropExpired(cfg, q), ret |-> [hit |-> FALSE, v |-> 0, keys |-> ExpiredPrefix(cfg, q)]]

\* fn len: number of stored entries (expired but not yet purged ones included)
LenOp(q, cfg) == [q |-> q, ret |-> [hit |-> FALSE, v |-> Len(q)]]

Tick(q, cfg, d, maxAge) ==
  [q |-> [i \in 1..Len(q) |-> [q[i] EXCEPT !.age = IF maxAge > 0 /\ @ + d > maxAge THEN maxAge ELSE @ + d]],
   ret |-> None]

Step(q, cfg, op, maxAge) ==
  CASE op.o = "insert"  -> Insert(q, cfg, op.k, op.v)
    [] op.o = "get"     -> GetMut(q, cfg, op.k)
    [] op.o = "get_mut" -> GetMut(q, cfg, op.k)
    [] op.o = "peek"    -> Peek(q, cfg, op.k)
    [] op.o = "remove"  -> Remove(q, cfg, op.k)
    [] op.o = "purge"   -> RemoveExpired(q, cfg)
    [] op.o = "len"     -> LenOp(q, cfg)
    [] op.o = "tick"    -> Tick(q, cfg, op.d, maxAge)

\* ------------------------------------------------------------------ property formulas (C15 a)
\* evaluated on a step  (q, op) -> (r.q, r.ret)
IsLookup(op) == op.o \in {"get", "get_mut", "peek"}
\* a lookup that returns a value returns one whose entry was used <= ttl ago
NoStaleStep(q, cfg, op, ret) ==
  (IsLookup(op) /\ ret.hit) => (Idx(q, op.k) # 0 /\ q[Idx(q, op.k)].age <= cfg.ttl)
\* the cache never holds more than `cap` entries
BoundState(q, cfg) == Len(q) <= cfg.cap
\* when an insert makes an entry disappear, it is the least recently used one
EvictLruStep(q, cfg, op, q2) ==
  op.o = "insert" =>
     \A i \in 1..Len(q) : (q[i].k # op.k /\ Idx(q2, q[i].k) = 0) =>
         \A j \in 1..Len(q) : q[j].k # op.k => q[j].age <= q[i].age
\* order of the queue is order of last use
AgeOrdered(q) == \A i, j \in 1..Len(q) : i < j => q[i].age >= q[j].age
=============================================================================
