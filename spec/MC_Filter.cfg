SPECIFICATION Spec
CONSTANTS
  IPS = {1, 2}
  NODES = {1, 2}
  CFGS <- CfA
  H = 3
  MAXARR = 5
  MAXBL = 0
  BLOPS = {}
  INITBL = FALSE
  DEPTH = 0
INVARIANTS C18F C18Stage
VIEW View
CHECK_DEADLOCK FALSE
