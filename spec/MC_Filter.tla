------------------------------ MODULE MC_Filter ------------------------------
(* Model checking / behaviour generation for the packet filter (Filter.tla): any arrival sequence (times, source IPs,    *)
(* node ids, datagrams without a source id), any interleaving of prune calls, any ban / permit list operations.           *)
(* `g` is a second copy of the filter whose limiter is never pruned; it judges every datagram against the same ban list.   *)
EXTENDS Filter, TLC, Json, SequencesExt
CONSTANTS IPS, NODES, CFGS, H, MAXARR, MAXBL, BLOPS, INITBL, DEPTH
VARIABLES cfg, f, g, bl, now, arr, nbl, hist, res, sh
vars == <<cfg, f, g, bl, now, arr, nbl, hist, res, sh>>

Q(b, p) == [b |-> b, p |-> p]
C(en, rl, ipq, nodeq, totq, mn, mb, bd) ==
  [enabled |-> en, rl |-> rl, ipq |-> ipq, nodeq |-> nodeq, totq |-> totq, maxNodes |-> mn, maxBans |-> mb, banDur |-> bd]
\* configurations (cfg files cannot hold records); max_nodes_per_ip / max_bans_per_ip off
CfA == {C(TRUE, TRUE, Q(2, 2), Q(1, 2), Q(3, 3), 0, 0, 2)}
CfB == {C(TRUE, TRUE, Q(1, 2), Q(2, 4), Q(2, 2), 0, 0, 0), C(TRUE, TRUE, NoQ, Q(1, 1), Q(2, 2), 0, 0, 3), C(TRUE, TRUE, Q(2, 4), NoQ, Q(3, 3), 0, 0, 1)}
CfC == {C(TRUE, TRUE, Q(1, 1), Q(1, 1), Q(4, 4), 0, 0, 1), C(TRUE, FALSE, NoQ, NoQ, NoQ, 0, 0, 2)}
\* with the other refusal reasons on (conformance of the transcription; RefusedWithinQuota does not judge stage 2 then)
CfT == {C(TRUE, TRUE, Q(3, 3), Q(1, 2), Q(4, 4), 2, 2, 2)}
CfSim == {C(TRUE, TRUE, ipq, nodeq, totq, 0, 0, bd) :
            ipq \in {NoQ, Q(1, 2), Q(2, 2), Q(2, 4), Q(3, 6)}, nodeq \in {NoQ, Q(1, 1), Q(1, 3), Q(2, 4)}, totq \in {Q(2, 2), Q(4, 4), Q(3, 6), Q(6, 6)}, bd \in {0, 2, 5}}
         \cup {C(TRUE, FALSE, NoQ, NoQ, NoQ, 0, 0, 3)}
CfSimT == {C(en, TRUE, ipq, nodeq, Q(6, 6), mn, mb, 3) : en \in BOOLEAN, ipq \in {NoQ, Q(3, 3)}, nodeq \in {Q(1, 2), Q(2, 2)}, mn \in {0, 2, 3}, mb \in {0, 1, 2}}

\* every combination of (permanent) ban / permit entries as the initial list, written as the operations that build it
InitBls == IF INITBL THEN {[pi |-> a, bi |-> {<<x, Perm>> : x \in b}, pn |-> c, bn |-> {<<x, Perm>> : x \in d}] :
                             a \in SUBSET IPS, b \in SUBSET IPS, c \in SUBSET NODES, d \in SUBSET NODES}
           ELSE {Bl0}
BlPrefix(b) == SetToSeq({[o |-> "permit_ip", ip |-> x] : x \in b.pi}) \o SetToSeq({[o |-> "ban_ip", ip |-> p[1], d |-> 0] : p \in b.bi})
               \o SetToSeq({[o |-> "permit_node", node |-> x] : x \in b.pn}) \o SetToSeq({[o |-> "ban_node", node |-> p[1], d |-> 0] : p \in b.bn})
Init == /\ cfg \in CFGS /\ f = FNew(cfg) /\ g = FNew(cfg) /\ bl \in InitBls /\ now = 0 /\ arr = <<>> /\ nbl = 0
        /\ res = [f |-> f, bl |-> bl, ret |-> OkRet] /\ sh = res
        /\ hist = <<[o |-> "reset", sut |-> "filter", enabled |-> cfg.enabled, rl |-> cfg.rl,
                     ipb |-> cfg.ipq.b, ipp |-> cfg.ipq.p, nodeb |-> cfg.nodeq.b, nodep |-> cfg.nodeq.p, totb |-> cfg.totq.b, totp |-> cfg.totq.p,
                     maxNodes |-> cfg.maxNodes, maxBans |-> cfg.maxBans, banDur |-> cfg.banDur]>> \o BlPrefix(bl)

BlOps == [o : {"ban_ip"} \cap BLOPS, ip : IPS, d : {0, 2}] \cup [o : {"unban_ip", "permit_ip", "unpermit_ip"} \cap BLOPS, ip : IPS]
         \cup [o : {"ban_node"} \cap BLOPS, node : NODES, d : {0, 2}] \cup [o : {"unban_node", "permit_node", "unpermit_node"} \cap BLOPS, node : NODES]
\* list operations that change nothing are left out (they only add stuttering)
Useful(op) == CASE op.o = "unban_ip" -> Has(bl.bi, op.ip) [] op.o = "permit_ip" -> op.ip \notin bl.pi [] op.o = "unpermit_ip" -> op.ip \in bl.pi
                [] op.o = "unban_node" -> Has(bl.bn, op.node) [] op.o = "permit_node" -> op.node \notin bl.pn [] op.o = "unpermit_node" -> op.node \in bl.pn
                [] OTHER -> TRUE
Ops == (IF Len(arr) < MAXARR THEN [o : {"pkt"}, ip : IPS, node : NODES \cup {0}] ELSE {})
       \cup (IF cfg.rl THEN {[o |-> "prune"]} ELSE {})
       \cup (IF now < H THEN [o : {"tick"}, d : {1}] ELSE {})
       \cup (IF nbl < MAXBL THEN {op \in BlOps : Useful(op)} ELSE {})
Do(op) ==
  /\ now' = IF op.o = "tick" THEN now + op.d ELSE now
  /\ res' = FStep(f, bl, cfg, now, op) /\ f' = res'.f /\ bl' = res'.bl
  /\ sh' = IF op.o = "pkt" THEN FStep(g, bl, cfg, now, op) ELSE [f |-> g, bl |-> bl, ret |-> OkRet]
  /\ g' = sh'.f
  /\ arr' = IF op.o = "pkt" THEN Append(arr, Entry(op, now, bl, bl', res'.ret, sh'.ret)) ELSE arr
  /\ nbl' = IF op.o \in {"pkt", "prune", "tick"} THEN nbl ELSE nbl + 1
  /\ hist' = Append(hist, op)
  /\ UNCHANGED cfg
\* simulation: the kind of operation is drawn first (half of the operations are datagrams), then the operation
SimKinds(r) == IF r <= 5 THEN {"pkt"} ELSE IF r = 6 THEN {"prune"} ELSE IF r <= 8 THEN {"tick"} ELSE BLOPS
Next == IF DEPTH > 0
        THEN \E r \in {RandomElement(1..10)} :
               LET cand == {o \in Ops : o.o \in SimKinds(r)} IN
               \E op \in {RandomElement(IF cand = {} THEN Ops ELSE cand)} : Do(op)
        ELSE \E op \in Ops : Do(op)
Spec == Init /\ [][Next]_vars
View == <<cfg, f, g, bl, now, arr, nbl>>

\* ---- C18 on the design
C18F     == FViols(arr, cfg) = {}
C18Stage == FStageViols(arr, cfg) = {}
Emit == DEPTH = 0 \/ Len(hist) <= DEPTH \/ PrintT(<<"REPLAY", ToJson(hist)>>)
\* coverage goals
LastA == arr[Len(arr)]
GoalIpBanThenDrop   == ~(Len(arr) >= 2 /\ LastA.bIp /\ ~LastA.pIp /\ \E i \in 1..(Len(arr) - 1) : arr[i].ip = LastA.ip /\ arr[i].s1 = "drop" /\ ~arr[i].bIp)
GoalTotalRefusal    == ~(Len(arr) >= 1 /\ LastA.s1 = "drop" /\ ~LastA.bIp /\ LastA.ipBan = {})
GoalNodeBanThenDrop == ~(Len(arr) >= 2 /\ LastA.bNode /\ ~LastA.pNode /\ LastA.s2 = "drop" /\ \E i \in 1..(Len(arr) - 1) : arr[i].node = LastA.node /\ arr[i].s2 = "drop" /\ ~arr[i].bNode)
GoalPermitOverBan   == ~(Len(arr) >= 1 /\ LastA.pIp /\ LastA.bIp /\ LastA.pNode /\ LastA.bNode)
\* one IP's key has been pruned away (bucket full), another IP is in debt across a prune and is refused
GoalPrunedKeyUsed   == ~(Len(arr) >= 3 /\ LastA.s1 = "drop" /\ ~LastA.bIp /\ hist[Len(hist) - 1].o = "prune" /\ now > 0
                         /\ \E p \in g.rl.ip.tat : ~Has(f.rl.ip.tat, p[1]))
GoalUnbanThenRefused == ~(Len(arr) >= 3 /\ LastA.s1 = "drop" /\ ~LastA.bIp /\ LastA.ipBan # {} /\ \E i \in 1..(Len(arr) - 1) : arr[i].ip = LastA.ip /\ arr[i].bIp)
GoalNodeRefill      == ~(Len(arr) >= 3 /\ LastA.s2 = "pass" /\ ~LastA.pNode /\ LastA.node # 0 /\ Cardinality({i \in 1..Len(arr) : arr[i].node = LastA.node /\ arr[i].s2 = "pass"}) >= 3)
=============================================================================
