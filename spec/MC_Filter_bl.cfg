SPECIFICATION Spec
CONSTANTS
  IPS = {1, 2}
  NODES = {1}
  CFGS <- CfC
  H = 1
  MAXARR = 3
  MAXBL = 1
  BLOPS = {"ban_ip", "unban_ip", "permit_ip", "unpermit_ip", "ban_node", "unban_node", "permit_node", "unpermit_node"}
  INITBL = TRUE
  DEPTH = 0
INVARIANTS C18F C18Stage
VIEW View
CHECK_DEADLOCK FALSE
