SPECIFICATION Spec
CONSTANTS
  IPS = {1, 2}
  NODES = {1}
  CFGS <- CfA
  H = 3
  MAXARR = 6
  MAXBL = 0
  BLOPS = {}
  INITBL = FALSE
  DEPTH = 0
CHECK_DEADLOCK FALSE
