SPECIFICATION Spec
CONSTANTS
  IPS = {1}
  NODES = {1}
  CFGS <- CfA
  H = 2
  MAXARR = 5
  MAXBL = 4
  BLOPS = {"ban_ip", "unban_ip", "permit_ip", "ban_node", "permit_node"}
  INITBL = FALSE
  DEPTH = 0
CHECK_DEADLOCK FALSE
