SPECIFICATION Spec
CONSTANTS
  IPS = {1}
  NODES = {1, 2}
  CFGS <- CfA
  H = 4
  MAXARR = 6
  MAXBL = 0
  BLOPS = {}
  INITBL = FALSE
  DEPTH = 0
CHECK_DEADLOCK FALSE
