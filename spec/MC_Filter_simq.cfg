SPECIFICATION Spec
CONSTANTS
  IPS = {1, 2}
  NODES = {1, 2, 3}
  CFGS <- CfSim
  H = 200
  MAXARR = 200
  MAXBL = 200
  BLOPS = {}
  INITBL = FALSE
  DEPTH = 40
INVARIANTS Emit
CHECK_DEADLOCK FALSE
