SPECIFICATION Spec
CONSTANTS
  IPS = {1, 2}
  NODES = {1, 2, 3}
  CFGS <- CfSimT
  H = 200
  MAXARR = 200
  MAXBL = 200
  BLOPS = {"unban_ip", "unban_node"}
  INITBL = FALSE
  DEPTH = 40
INVARIANTS Emit
CHECK_DEADLOCK FALSE
