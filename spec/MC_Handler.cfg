SPECIFICATION Spec
CONSTANTS
  TO = 10
  RETRIES = 1
  CAP = 4
  TTL = 3
  PEERS = {"p1"}
  RIDS = {"r1", "r2"}
  ATTACKER = FALSE
  BUD <- BudSmall
  DEPTH = 0
INVARIANTS ExemptInv OutcomeInv ExactlyOne SessBound
PROPERTY ConsumeStep
VIEW View
CHECK_DEADLOCK FALSE
