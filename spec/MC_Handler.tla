---------------------------- MODULE MC_Handler ----------------------------
(* Handler composed with its environment (application + peers + attacker + network).         *)
(* Exhaustive model checking of the design-level properties, coverage goals, and behaviour     *)
(* generation (simulation) for replay on the real handler.                                     *)
EXTENDS HandlerEnv, Json, SequencesExt
CONSTANTS RETRIES, CAP, TTL,         \* handler configuration
          PEERS,                     \* honest peers the application talks to
          RIDS,                      \* external request ids
          ATTACKER,                  \* TRUE: the attacker A (own key, own record, any source address) takes part
          BUD,                       \* budgets of environment moves (record)
          ENRS, WAYSEQS, HSSIGS, HSRECS, MSGSEL,   \* variant restrictions (keep exhaustive configurations focused)
          DEPTH

VARIABLES h, env, bud, hist, last, subm, outc, proved, xreq, rot
vars == <<h, env, bud, hist, last, subm, outc, proved, xreq, rot>>

BudTiny  == [way |-> 1, way2 |-> 1, rand |-> 1, hs |-> 1, badhs |-> 1, msg |-> 1, dup |-> 0, lose |-> 0, adv |-> 2, age |-> 0, app |-> 1, atk |-> 0]
BudInit  == [way |-> 2, way2 |-> 1, rand |-> 0, hs |-> 0, badhs |-> 0, msg |-> 2, dup |-> 0, lose |-> 0, adv |-> 2, age |-> 0, app |-> 2, atk |-> 0]
BudSmall == [way |-> 1, way2 |-> 0, rand |-> 1, hs |-> 1, badhs |-> 0, msg |-> 2, dup |-> 0, lose |-> 1, adv |-> 2, age |-> 0, app |-> 1, atk |-> 0]
BudMid   == [way |-> 2, way2 |-> 1, rand |-> 1, hs |-> 2, badhs |-> 1, msg |-> 2, dup |-> 1, lose |-> 1, adv |-> 2, age |-> 0, app |-> 2, atk |-> 0]
BudAtk   == [way |-> 1, way2 |-> 0, rand |-> 1, hs |-> 1, badhs |-> 0, msg |-> 1, dup |-> 1, lose |-> 0, adv |-> 0, age |-> 0, app |-> 1, atk |-> 3]
BudAtkQ  == [way |-> 0, way2 |-> 0, rand |-> 0, hs |-> 1, badhs |-> 0, msg |-> 0, dup |-> 1, lose |-> 0, adv |-> 0, age |-> 0, app |-> 1, atk |-> 3]
BudTime  == [way |-> 2, way2 |-> 0, rand |-> 0, hs |-> 0, badhs |-> 0, msg |-> 2, dup |-> 0, lose |-> 0, adv |-> 0, age |-> 2, app |-> 2, atk |-> 0]
BudSim   == [way |-> 4, way2 |-> 2, rand |-> 3, hs |-> 4, badhs |-> 2, msg |-> 8, dup |-> 3, lose |-> 2, adv |-> 6, age |-> 3, app |-> 4, atk |-> 4]

Reset == [k |-> "Reset", retries |-> RETRIES, cap |-> CAP, sess_ttl |-> TTL]
Init == /\ h = HInit(RETRIES, CAP, TTL) /\ env = EInit /\ bud = BUD
        /\ hist = <<Reset>> /\ last = [in |-> Reset, rin |-> [k |-> "Nop"], hadSess |-> FALSE, hadPend |-> FALSE, pendRids |-> {}, expPend |-> FALSE, lateInt |-> FALSE, hadOld |-> FALSE, wayHsForeign |-> FALSE, wr |-> "none", prevwr |-> "none", secondEnrless |-> FALSE, respWhile2 |-> FALSE, wayHs |-> FALSE]
        /\ subm = {} /\ outc = [r \in RIDS |-> 0] /\ proved = {} /\ xreq = {} /\ rot = {}

Parties == PEERS \cup (IF ATTACKER THEN {"A"} ELSE {})
Use(b, f) == [b EXCEPT ![f] = @ - 1]

\* ------------------------------------------------------------------ the environment's moves
AppReqs == {[k |-> "AppRequest", peer |-> p, addr |-> HomeSock(p), rid |-> r, enr |-> e, body |-> "ping"] :
              p \in PEERS, r \in RIDS \ subm, e \in ENRS}
AppResps == {[k |-> "AppResponse", peer |-> x.id, addr |-> x.addr, xid |-> x.rid, body |-> "pong"] : x \in xreq}
AppWrus == UNION {{[k |-> "AppWhoAreYou", ref |-> env.wru[i].ref, rec |-> r] : r \in {"none", Name(env.wru[i].a.id \o ":", 1)}} : i \in 1..Len(env.wru)}
Randoms == {[k |-> "PeerRandom", party |-> p, from |-> HomeSock(p), claim |-> p] : p \in PEERS}
           \cup (IF DEPTH > 0 \/ "sib" \in MSGSEL THEN {[k |-> "PeerRandom", party |-> p, from |-> HomeSock(p) \o "b", claim |-> p] : p \in PEERS} ELSE {})   \* from the other port
           \cup (IF ATTACKER THEN {[k |-> "PeerRandom", party |-> "A", from |-> "aA", claim |-> c] : c \in PEERS} ELSE {})
\* WHOAREYOU from a party for a datagram the node sent to one of the sockets that party can see
\* (also from the other port of the same IP address: a1 <-> a1b, ...: such a WHOAREYOU does not come from where the datagram went)
Sib(s) == CASE s = "a1" -> "a1b" [] s = "a2" -> "a2b" [] s = "a3" -> "a3b" [] s = "aA" -> "aAb"
            [] s = "a1b" -> "a1" [] s = "a2b" -> "a2" [] s = "a3b" -> "a3" [] s = "aAb" -> "aA" [] OTHER -> s
Ways == UNION {{[k |-> "PeerWhoAreYou", party |-> p, from |-> f, echo |-> env.seen[i].n, seq |-> q, claim |-> env.seen[i].id] :
              p \in Parties, q \in WAYSEQS, f \in {env.seen[i].to} \cup (IF DEPTH > 0 \/ "sib" \in MSGSEL THEN {Sib(env.seen[i].to)} ELSE {})} : i \in 1..Len(env.seen)}   \* sibling sources in simulation only (the model ignores them)
WaysOk == {w \in Ways : w.from \in Socks(w.party) \/ (w.party = "A" /\ DEPTH > 0)}    \* source-address spoofing of WHOAREYOU only in simulation
HsMsgs == {[t |-> "req", xid |-> "x1", body |-> "ping"]} \cup {[t |-> "resp", rid |-> r, body |-> "pong"] : r \in subm}
Handshakes == UNION {UNION {{[k |-> "PeerHandshake", party |-> p, from |-> env.froml[i].sock, claim |-> env.froml[i].id, chal |-> env.froml[i].idn,
                               sig |-> sg, rec |-> rc, msg |-> m] :
                                 sg \in HSSIGS, m \in HsMsgs,
                                 rc \in (IF "none" \in HSRECS THEN {"none"} ELSE {}) \cup (IF "own2" \in HSRECS THEN {Name(p \o ":", 2)} ELSE {})
                                        \cup (IF "own9" \in HSRECS THEN {Name(p \o ":", 9)} ELSE {}) \cup (IF "claimed1" \in HSRECS THEN {Name(env.froml[i].id \o ":", 1)} ELSE {})}
                             : i \in 1..Len(env.froml)} : p \in Parties}
HandshakesOk == {x \in Handshakes : (x.party = x.claim /\ x.from \in Socks(x.party)) \/ x.party = "A"}
\* the node's own record requests: those in flight; with "intlate" every one issued so far (a late answer after its time-out)
IntRids == IF "intlate" \in MSGSEL THEN {Name("q", i) : i \in 1..h.nq} ELSE {h.active[j].rid : j \in {j \in 1..Len(h.active) : h.active[j].int}}
Messages == UNION {{[k |-> "PeerMessage", party |-> env.sess[i].party, from |-> HomeSock(env.sess[i].party), key |-> env.sess[i].kid, msg |-> m] :
              m \in (IF "req" \in MSGSEL THEN {[t |-> "req", xid |-> "x1", body |-> "ping"]} ELSE {})
                    \cup (IF "junk" \in MSGSEL THEN {[t |-> "junk"]} ELSE {})
                    \cup (IF "pong" \in MSGSEL THEN {[t |-> "resp", rid |-> r, body |-> "pong"] : r \in subm} ELSE {})
                    \cup (IF "nodes2" \in MSGSEL THEN {[t |-> "resp", rid |-> r, body |-> "nodes", total |-> 2] : r \in subm} ELSE {})
                    \cup (IF "intok" \in MSGSEL THEN {[t |-> "resp", rid |-> r, body |-> "nodes", total |-> 1, rec |-> Name(env.sess[i].party \o ":", 1)] : r \in IntRids} ELSE {})
                    \cup (IF "intforeign" \in MSGSEL THEN {[t |-> "resp", rid |-> r, body |-> "nodes", total |-> 1, rec |-> Name(x \o ":", 9)] :
                                                              r \in IntRids, x \in {"p1", "p2", "p3"} \ {env.sess[i].party}} ELSE {})   \* another node's (address-less) record
                    \cup (IF "intnone" \in MSGSEL THEN {[t |-> "resp", rid |-> r, body |-> "nodes", total |-> 1, rec |-> "none"] : r \in IntRids} ELSE {})}
              : i \in 1..Len(env.sess)}
\* the attacker presents, from a peer's own socket, a message sealed under the all-zero key that names that peer
ZeroMsgs == IF ATTACKER /\ "zerokey" \in MSGSEL
            THEN {[k |-> "PeerMessage", party |-> "A", claim |-> h.sessq[i].addr.id, from |-> h.sessq[i].addr.sock, key |-> "zero",
                   msg |-> [t |-> "req", xid |-> "x1", body |-> "ping"]] : i \in 1..Len(h.sessq)}
            ELSE {}
Replays == UNION {{[k |-> "Replay", idx |-> i, from |-> f] : f \in {env.inj[i].from} \cup (IF ATTACKER THEN {"aA"} ELSE {})
                                                                   \cup (IF DEPTH > 0 \/ "sib" \in MSGSEL THEN {Sib(env.inj[i].from)} ELSE {})} : i \in 1..Len(env.inj)}
Forgets == {[k |-> "PeerForget", party |-> p] : p \in {env.sess[i].party : i \in 1..Len(env.sess)}}

Moves ==
  [app  |-> AppReqs,
   appr |-> AppResps \cup AppWrus,
   rand |-> Randoms, way |-> WaysOk, hs |-> HandshakesOk, msg |-> Messages \cup ZeroMsgs, dup |-> Replays, lose |-> Forgets,
   adv  |-> {[k |-> "Advance", ticks |-> t] : t \in {TO \div 2, TO}},
   age  |-> {[k |-> "AgeSessions", units |-> u] : u \in {1, TTL + 1}}]
\* which budget a move draws from
BudgetOf(kind, in) ==
  CASE kind = "way" -> IF \E j \in 1..Len(env.inj) : env.inj[j].k = "way" /\ env.inj[j].echo = in.echo THEN "way2" ELSE "way"
    [] kind = "hs"  -> IF in.party = "A" THEN "atk" ELSE IF in.sig # "own" \/ in.rec = "none" THEN "badhs" ELSE "hs"
    [] kind = "rand" -> IF in.party = "A" THEN "atk" ELSE "rand"
    [] kind = "msg" -> IF in.party = "A" /\ "key" \in DOMAIN in /\ in.key = "zero" THEN "atk" ELSE "msg"
    [] kind = "appr" -> "msg"      \* application reactions are not budgeted separately
    [] OTHER -> kind

\* ------------------------------------------------------------------ one step
TrackedIn(hh, r) == (\E i \in 1..Len(hh.active) : hh.active[i].rid = r) \/ (\E i \in 1..Len(hh.pend) : hh.pend[i].rid = r)
\* terminal outcomes of request r in this step: failure reports, plus the response that completed it
Terminal(h2, r) == Cardinality({i \in 1..Len(h2.ev) : h2.ev[i].e = "RequestFailed" /\ h2.ev[i].rid = r})
                   + (IF (\E i \in 1..Len(h2.ev) : h2.ev[i].e = "Response" /\ h2.ev[i].rid = r) /\ ~TrackedIn(h2, r) THEN 1 ELSE 0)
\* C01 bookkeeping: (id, sock) pairs for which the holder of id's key answered a fresh challenge of the node
ProvedBy(rin, h1, h2) ==
  IF rin.k = "hs" /\ rin.signer = rin.src /\ HasChal(h1, Addr(rin.src, rin.from)) /\ ~HasChal(h2, Addr(rin.src, rin.from))
     /\ h1.chal[ChalIdx(h1, Addr(rin.src, rin.from))].idn = rin.chal
  THEN {Addr(rin.src, rin.from)} ELSE {}

Do(kind, in) ==
  LET b == BudgetOf(kind, in) IN
  /\ kind = "appr" \/ bud[b] > 0
  /\ bud' = IF kind = "appr" THEN bud ELSE Use(bud, b)
  /\ LET rin == Resolve(h, env, in)
         e1  == EnvIn(env, in, rin) IN
     \E h2 \in HStep(h, rin) :
        /\ h' = h2
        /\ env' = EnvOut(e1, in, h2)
        /\ last' = [in |-> in, rin |-> rin, hadSess |-> rin.k = "hs" /\ HasSess(h, Addr(rin.src, rin.from)), hadPend |-> rin.k = "hs" /\ \E i \in 1..Len(h.pend) : h.pend[i].addr = Addr(rin.src, rin.from) /\ ~h.pend[i].int,
                        pendRids |-> {h.pend[i].rid : i \in 1..Len(h.pend)},
                        expPend |-> rin.k = "Advance" /\ \E i \in 1..Len(h.pend) : ~h.pend[i].int /\ HasSess(h, h.pend[i].addr) /\ HasChal(h, h.pend[i].addr),
                        lateInt |-> rin.k = "msg" /\ rin.msg.t = "resp" /\ SessIdx(h, Addr(rin.src, rin.from)) # 0 /\ Sess(h, Addr(rin.src, rin.from)).aw = rin.msg.rid
                                    /\ (\A i \in 1..Len(h.active) : h.active[i].rid # rin.msg.rid)
                                    /\ (\E i \in 1..Len(h.active) : h.active[i].addr = Addr(rin.src, rin.from) /\ ~h.active[i].int),
                        hadOld |-> rin.k = "msg" /\ SessIdx(h, Addr(rin.src, rin.from)) # 0 /\ Sess(h, Addr(rin.src, rin.from)).old # "none",
                        wayHsForeign |-> rin.k = "way" /\ \E i \in 1..Len(h.active) : h.active[i].n = rin.echo /\ h.active[i].hs /\ h.active[i].addr.sock # rin.from,
                        \* a WHOAREYOU for a request that went out as a random packet although a session with the peer exists by now (both sides dialled)
                        wr |-> IF rin.k = "way" /\ (\E i \in 1..Len(h.active) : h.active[i].n = rin.echo /\ h.active[i].kind = "rand" /\ h.active[i].addr.sock = rin.from /\ HasSess(h, h.active[i].addr))
                               THEN rin.echo ELSE "none",
                        prevwr |-> last.wr,
                        secondEnrless |-> rin.k = "AppRequest" /\ ~rin.enr /\ HasSess(h, Addr(rin.peer, rin.addr))
                                          /\ (\E i \in 1..Len(h.active) : h.active[i].addr = Addr(rin.peer, rin.addr) /\ ~h.active[i].int /\ ~h.active[i].enr /\ h.active[i].hs),
                        respWhile2 |-> rin.k = "msg" /\ Cardinality({i \in 1..Len(h.active) : h.active[i].addr = Addr(rin.src, rin.from) /\ ~h.active[i].int /\ ~h.active[i].enr}) >= 2
                                       /\ rin.msg.t = "resp" /\ (\E i \in 1..Len(h.active) : h.active[i].addr = Addr(rin.src, rin.from) /\ h.active[i].hs /\ h.active[i].rid = rin.msg.rid),
                        wayHs |-> rin.k = "way" /\ \E i \in 1..Len(h.active) : h.active[i].n = rin.echo /\ h.active[i].hs /\ h.active[i].kind = "msg" /\ h.active[i].addr.sock = rin.from]
        /\ hist' = Append(hist, in)
        /\ subm' = IF in.k = "AppRequest" THEN subm \cup {in.rid} ELSE subm
        /\ outc' = [r \in RIDS |-> outc[r] + Terminal(h2, r)]
        /\ proved' = proved \cup ProvedBy(rin, h, h2)
        /\ rot' = rot \cup (IF rin.k = "msg" /\ SessIdx(h, Addr(rin.src, rin.from)) # 0 /\ rin.key # "none" /\ Sess(h, Addr(rin.src, rin.from)).old = rin.key THEN {rin.key} ELSE {})
        /\ xreq' = (xreq \cup {[id |-> h2.ev[i].id, addr |-> h2.ev[i].addr, rid |-> h2.ev[i].rid] : i \in {i \in 1..Len(h2.ev) : h2.ev[i].e = "Request"}})
                   \ (IF in.k = "AppResponse" THEN {[id |-> in.peer, addr |-> in.addr, rid |-> in.xid]} ELSE {})

Kinds == DOMAIN Moves
Next == IF DEPTH > 0
        THEN \E kind \in {RandomElement({k \in Kinds : Moves[k] # {} /\ (k = "appr" \/ \E i \in Moves[k] : bud[BudgetOf(k, i)] > 0)} \cup {"adv"})} :
               \E in \in {RandomElement(Moves[kind])} : Do(kind, in)
        ELSE \E kind \in Kinds : \E in \in Moves[kind] : Do(kind, in)
Spec == Init /\ [][Next]_vars
\* observation / history variables are kept out of the fingerprint; counters that only name things are kept (they are part of behaviour)
\* Timer deadlines are kept relative to `now` and timer ordering keys are replaced by their rank, so that
\* states differing only in absolute time / step numbers coincide.
AllSq(hh) == {hh.active[i].sq : i \in 1..Len(hh.active)} \cup {hh.chal[i].sq : i \in 1..Len(hh.chal)}
RankSq(hh, x) == Cardinality({y \in AllSq(hh) : y < x})
NormH(hh) == [hh EXCEPT !.tx = <<>>, !.ev = <<>>, !.stepno = 0, !.sq = 0, !.now = 0,
                        !.active = [i \in 1..Len(hh.active) |-> [hh.active[i] EXCEPT !.dl = @ - hh.now, !.sq = RankSq(hh, @)]],
                        !.chal = [i \in 1..Len(hh.chal) |-> [hh.chal[i] EXCEPT !.dl = @ - hh.now, !.sq = RankSq(hh, @)]]]
View == <<NormH(h), env, bud, subm, outc, proved, xreq, rot>>

\* ================================================================== design-level properties
\* C13: the number of exemptions of a socket = outstanding requests to it + outstanding challenges to it
ExemptInv == \A s \in {"a1", "a1b", "a2", "a2b", "a3", "aA"} :
   ExpCount(h, s) = Cardinality({i \in 1..Len(h.active) : h.active[i].addr.sock = s}) + Cardinality({i \in 1..Len(h.chal) : h.chal[i].addr.sock = s})
\* C04: at most one terminal outcome; a submitted request is tracked or has its outcome, never both, never neither
Tracked(r) == TrackedIn(h, r)
OutcomeInv == \A r \in RIDS : outc[r] <= 1
ExactlyOne == \A r \in subm : (outc[r] = 1) # Tracked(r)
\* a queued request always has something that will release it (a challenge that will be answered or expire, or a handshake in flight whose request will time out)
NoOrphanPending == \A i \in 1..Len(h.pend) : HasChal(h, h.pend[i].addr) \/ IsAwaiting(h, h.pend[i].addr)
\* an internal record request never outlives its purpose
NoStaleInternal == \A i \in 1..Len(h.active) : h.active[i].int =>
      (~HasSess(h, h.active[i].addr) \/ Sess(h, h.active[i].addr).aw = h.active[i].rid \/ IsAwaiting(h, h.active[i].addr))
\* C01: a session keyed (X, sock) with keys the attacker knows, or an attribution to X at the attacker's socket, needs X's proof
AttackerKeys == {env.sess[i].kid : i \in {i \in 1..Len(env.sess) : env.sess[i].party = "A"}}
AuthInv == \A i \in 1..Len(h.sessq) :
   (h.sessq[i].cur \in AttackerKeys \/ h.sessq[i].old \in AttackerKeys) => h.sessq[i].addr.id = "A"
AuthEvInv == \A i \in 1..Len(h.ev) :
   (h.ev[i].e \in {"Established", "Request", "Response", "Unverifiable"} /\ h.ev[i].addr \in {"aA", "aAb"}) => h.ev[i].id = "A" \/ Addr(h.ev[i].id, h.ev[i].addr) \in proved
\* C15: the cache is bounded
SessBound == Len(h.sessq) <= CAP
\* C03: a session's keys change only in a step that consumes a challenge of the node or answers a WHOAREYOU for an in-flight request
KeysOf(hh, a) == IF SessIdx(hh, a) = 0 THEN <<"none", "none">> ELSE <<Sess(hh, a).cur, Sess(hh, a).old>>
ConsumeStep == [][\A a \in {h'.sessq[i].addr : i \in 1..Len(h'.sessq)} :
                    (KeysOf(h', a) # KeysOf(h, a) /\ {KeysOf(h', a)[1], KeysOf(h', a)[2]} # {KeysOf(h, a)[1], KeysOf(h, a)[2]}) =>
                       \/ (last'.rin.k = "hs" /\ HasChal(h, a) /\ ~HasChal(h', a) /\ h.chal[ChalIdx(h, a)].idn = last'.rin.chal)
                       \/ (last'.rin.k = "way" /\ \E i \in 1..Len(h.active) : h.active[i].n = last'.rin.echo /\ h.active[i].addr = a /\ ~h.active[i].hs)]_vars
\* liveness (C04): every submitted request eventually has its outcome, provided time keeps advancing
TimeAdvances == WF_vars(\E in \in Moves["adv"] : Do("adv", in))

Emit == DEPTH = 0 \/ Len(hist) <= DEPTH \/ PrintT(<<"REPLAY", ToJson(hist)>>)
\* ------------------------------------------------------------------ coverage goals (trap invariants)
GoalSecondWay   == ~(last.rin.k = "way" /\ \E i \in 1..Len(h.ev) : h.ev[i].e = "RequestFailed" /\ h.ev[i].err = "InvalidRemotePacket")
GoalNoRecordHs  == ~(last.rin.k = "hs" /\ last.rin.rec.owner = "none" /\ Len(h.chal) = 0 /\ last.in.k = "PeerHandshake" /\ last.in.rec = "none" /\ \E i \in 1..Len(hist) : hist[i].k = "AppWhoAreYou" /\ hist[i].rec = "none")
GoalRekeyPending == ~(last.rin.k = "hs" /\ \E i \in 1..Len(h.tx) : h.tx[i].kind = "msg" /\ h.tx[i].body.t = "req" /\ Len(h.tx) >= 2)
\* a handshake from the peer re-keys an existing session while requests are queued behind the node's challenge
GoalRekeyReleasesPending == ~(last.rin.k = "hs" /\ last.hadSess /\ last.hadPend /\ ~HasChal(h, Addr(last.rin.src, last.rin.from)) /\ (\E i \in 1..Len(h.ev) : h.ev[i].e = "Established")
                              /\ \A i \in 1..Len(h.active) : h.active[i].rid \in last.pendRids)
GoalEnrlessDone == ~(\E i \in 1..Len(h.ev) : h.ev[i].e = "Established" /\ h.ev[i].dir = "Out" /\ last.rin.k = "msg")
GoalForgedHs    == ~(last.rin.k = "hs" /\ last.in.party = "A" /\ last.rin.signer = "A" /\ last.rin.rec.owner = "A" /\ HasChal(h, Addr(last.rin.src, last.rin.from)))
GoalTimeoutAll  == ~(last.rin.k = "Advance" /\ Cardinality({i \in 1..Len(h.ev) : h.ev[i].e = "RequestFailed" /\ h.ev[i].err = "Timeout"}) >= 2)
\* base behaviours for C02 (each is extended with tampered variants of every datagram it injected)
Delivered(kind) == \E i \in 1..Len(h.ev) : h.ev[i].e = kind
GoalBaseResponder == ~(last.in.k = "PeerMessage" /\ Delivered("Request") /\ \E i \in 1..Len(hist) : hist[i].k = "PeerHandshake")
GoalBaseInitiator == ~(last.in.k = "PeerMessage" /\ Delivered("Response") /\ \E i \in 1..Len(hist) : hist[i].k = "PeerWhoAreYou")
GoalBaseRekeyed   == ~(last.in.k = "PeerMessage" /\ (Delivered("Response") \/ Delivered("Request")) /\ \E i \in 1..Len(h.sessq) : h.sessq[i].old # "none")
GoalBaseAwaiting  == ~(last.in.k = "PeerMessage" /\ Delivered("Request") /\ \E i \in 1..Len(h.sessq) : h.sessq[i].aw # "none")
GoalBaseResponderRec == ~(last.in.k = "PeerMessage" /\ Delivered("Request") /\ \E i \in 1..Len(hist) : hist[i].k = "PeerHandshake" /\ hist[i].rec # "none" /\ hist[i].sig = "own")
\* a rejected (badly signed) handshake, then the genuine one, while a request to the same socket is outstanding
GoalBadThenGoodHs == ~(last.rin.k = "hs" /\ last.rin.signer # "bad" /\ Delivered("Established")
                       /\ (\E i \in 1..Len(hist) - 1 : hist[i].k = "PeerHandshake" /\ hist[i].sig = "bad" /\ hist[i].from = last.rin.from /\ hist[i].chal = last.rin.chal)
                       /\ \E i \in 1..Len(h.active) : h.active[i].addr.sock = last.rin.from)
\* a WHOAREYOU for a request that was already answered with a handshake and has since been re-encrypted under new keys
GoalWayAfterReplay == ~(last.rin.k = "way" /\ last.wayHs)
\* the node sends a new message under keys it had rotated back to (the peer kept using the older keys)
\* (the message counter restarts when a session is re-keyed: a collision needs more messages under the older keys before
\*  the re-key than messages sent since)
FirstUnder(k) == LET S == {j \in 1..Len(env.seen) : env.seen[j].key = k} IN IF S = {} THEN 0 ELSE CHOOSE j \in S : \A x \in S : j <= x
GoalSendAfterRotateBack == ~(\E i \in 1..Len(h.tx) : h.tx[i].kind = "msg" /\ ~h.tx[i].re /\ h.tx[i].key \in rot
                               /\ \E a \in {h.sessq[x].addr : x \in 1..Len(h.sessq)} :
                                     /\ Sess(h, a).cur = h.tx[i].key /\ Sess(h, a).old # "none" /\ FirstUnder(Sess(h, a).old) # 0
                                     /\ LET f == FirstUnder(Sess(h, a).old)
                                            before == Cardinality({j \in 1..(f - 1) : env.seen[j].kind = "msg" /\ env.seen[j].key = h.tx[i].key})
                                            since  == Cardinality({j \in (f + 1)..(Len(env.seen) - Len(h.tx)) : env.seen[j].kind = "msg" /\ env.seen[j].to = a.sock})
                                        IN since + 1 <= before)
\* a request queued behind an unanswered WHOAREYOU of the node although a session exists (the application answered the query late):
\* the challenge expires and the request is released
GoalPendingAfterExpiredChallenge == ~(last.expPend /\ h.pend = <<>> /\ h.chal = <<>> /\ (\E i \in 1..Len(h.tx) : h.tx[i].kind = "msg" /\ h.tx[i].body.t = "req")
                                      /\ (\A i \in 1..Len(h.ev) : h.ev[i].e # "RequestFailed") /\ Len(h.sessq) >= 1)
\* the node's own record request to a contact without record is answered with the genuine record of another node
GoalForeignEnrAnswer == ~(last.in.k = "PeerMessage" /\ last.rin.k = "msg" /\ last.in.msg.t = "resp" /\ "rec" \in DOMAIN last.in.msg /\ last.in.msg.rec \notin {"none", Name(last.in.party \o ":", 1)}
                          /\ \E i \in 1..Len(h.ev) : h.ev[i].e = "Unverifiable")
\* the answer to the node's own record request arrives after that request has timed out (the session is kept), while another
\* request to the peer is in flight: the peer is reported established, the other request keeps its exemption
GoalLateEnrAnswer == ~(last.lateInt /\ \E i \in 1..Len(h.ev) : h.ev[i].e = "Established")
\* the attacker answers a challenge meant for a known node with bytes that are no signature at all
GoalJunkSigHs == ~(last.in.k = "PeerHandshake" /\ last.in.party = "A" /\ last.in.claim # "A" /\ last.in.sig \in {"zero64", "junk0", "junk63", "relay"}
                   /\ last.rin.k = "hs" /\ HasChal(h, Addr(last.rin.src, last.rin.from)))
\* a correctly signed handshake whose record advertises another socket than it came from (the session is established, the record
\* reported unverifiable) is presented a second time: its challenge was consumed by the first
GoalReplayUnverifiableHs == ~(last.in.k = "Replay" /\ last.rin.k = "hs" /\ Len(hist) >= 2
                              /\ hist[Len(hist) - 1].k = "PeerHandshake" /\ hist[Len(hist) - 1].sig = "own" /\ hist[Len(hist) - 1].rec # "none"
                              /\ hist[Len(hist) - 1].from = HomeSock(hist[Len(hist) - 1].party) \o "b" /\ last.in.from = hist[Len(hist) - 1].from)
\* a message under the all-zero key, from the socket of a peer whose session has been re-keyed (it keeps its previous keys too)
GoalZeroKeyAfterRekey == ~(last.in.k = "PeerMessage" /\ "key" \in DOMAIN last.in /\ last.in.key = "zero" /\ last.hadOld)
\* a WHOAREYOU echoing the nonce of a handshake the node has sent, but from another socket than that handshake went to: ignored
GoalForeignWayOnHs == ~(last.wayHsForeign)
\* the WHOAREYOU for a random-packet request arrives twice in a row while a session with the peer already exists
GoalWayTwiceWithSession == ~(last.rin.k = "way" /\ last.prevwr # "none" /\ last.prevwr = last.rin.echo)
\* a genuine message of a peer presented again from the other port of its address
GoalReplayMsgFromSibling == ~(last.in.k = "Replay" /\ last.rin.k = "msg" /\ last.rin.key # "none" /\ last.rin.msg.t = "req" /\ last.in.idx \in 1..Len(env.inj) /\ last.in.from = Sib(env.inj[last.in.idx].from)
                              /\ Len(h.sessq) >= 1)
\* a second request to a peer dialled without a record, submitted after the handshake for the first one went out (a session exists)
\* and before that first request is answered: it is sent under the session, not queued for ever
GoalSecondRequestEnrless == ~(last.secondEnrless /\ \E i \in 1..Len(h.tx) : h.tx[i].kind = "msg" /\ h.tx[i].body.t = "req")
\* ... and the first of two requests in flight to such a peer is answered (the second one stays in flight, it is not stuck in a queue)
GoalAnswerFirstOfTwoEnrless == ~(last.respWhile2 /\ Delivered("Response"))
GoalBadSigKeepsChallenge == ~(last.rin.k = "hs" /\ last.rin.signer = "bad" /\ HasChal(h, Addr(last.rin.src, last.rin.from)))
GoalReplayedHs  == ~(last.in.k = "Replay" /\ last.rin.k = "hs" /\ Len(h.sessq) >= 1)
=============================================================================
