SPECIFICATION Spec
CONSTANTS
  TO = 10
  RETRIES = 1
  CAP = 4
  TTL = 3
  PEERS = {"p3"}
  RIDS = {"r1"}
  ATTACKER = TRUE
  BUD <- BudAtk
  ENRS = {TRUE}
  WAYSEQS = {1}
  HSSIGS = {"own", "zero64", "junk0", "relay"}
  HSRECS = {"none", "own2", "claimed1"}
  MSGSEL = {"req", "pong"}
  DEPTH = 0
INVARIANTS ExemptInv OutcomeInv ExactlyOne SessBound AuthInv AuthEvInv
PROPERTY ConsumeStep
VIEW View
CHECK_DEADLOCK FALSE
