SPECIFICATION Spec
CONSTANTS
  TO = 10
  RETRIES = 1
  CAP = 4
  TTL = 3
  PEERS = {"p1"}
  RIDS = {"r1", "r2"}
  ATTACKER = FALSE
  BUD <- BudMid
  ENRS = {TRUE, FALSE}
  WAYSEQS = {0, 1}
  HSSIGS = {"own"}
  HSRECS = {"claimed1"}
  MSGSEL = {"req", "pong", "sib"}
  DEPTH = 0
INVARIANTS ExemptInv OutcomeInv ExactlyOne SessBound AuthInv AuthEvInv
PROPERTY ConsumeStep
VIEW View
CHECK_DEADLOCK FALSE
