SPECIFICATION Spec
CONSTANTS
  TO = 10
  RETRIES = 2
  CAP = 2
  TTL = 3
  PEERS = {"p1", "p2"}
  RIDS = {"r1", "r2", "r3"}
  ATTACKER = TRUE
  BUD <- BudSim
  ENRS = {TRUE, FALSE}
  WAYSEQS = {0, 1}
  HSSIGS = {"own", "bad", "zero64", "junk0", "junk63", "relay"}
  HSRECS = {"none", "own2", "own9", "claimed1"}
  MSGSEL = {"req", "junk", "pong", "nodes2", "intok", "intforeign", "intlate", "intnone", "zerokey"}
  DEPTH = 40
INVARIANTS Emit
VIEW View
CHECK_DEADLOCK FALSE
