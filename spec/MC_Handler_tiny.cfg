SPECIFICATION Spec
CONSTANTS
  TO = 10
  RETRIES = 1
  CAP = 4
  TTL = 3
  PEERS = {"p1"}
  RIDS = {"r1"}
  ATTACKER = FALSE
  BUD <- BudTiny
  ENRS = {TRUE, FALSE}
  WAYSEQS = {0}
  HSSIGS = {"own", "bad"}
  HSRECS = {"none", "claimed1"}
  MSGSEL = {"req", "pong", "intok", "intnone"}
  DEPTH = 0
INVARIANTS ExemptInv OutcomeInv ExactlyOne SessBound AuthInv AuthEvInv
PROPERTY ConsumeStep
VIEW View
CHECK_DEADLOCK FALSE
