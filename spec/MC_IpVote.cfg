SPECIFICATION Spec
CONSTANTS
  V = 4
  MIN = 2
  D = 2
  ADDRS = {"A", "B", "C"}
  DEPTH = 0
  MODE = "ip4"
PROPERTY UpdateAct
CHECK_DEADLOCK FALSE
