----------------------------- MODULE MC_IpVote -----------------------------
EXTENDS IpVote, TLC, Json, SequencesExt
CONSTANTS DEPTH, MODE
VARIABLES votes, local, seq, announced, hist
vars == <<votes, local, seq, announced, hist>>
Init == votes = [v \in Voters |-> NoVote] /\ local = "none" /\ seq = 0 /\ announced = 0 /\ hist = <<>>
Pong(v, a) == /\ DEPTH = 0
              /\ LET r == PongStep(votes, local, v, a) IN
                 /\ votes' = r.votes /\ local' = r.local
                 /\ seq' = (IF r.updated THEN 1 - seq ELSE seq) /\ announced' = (IF r.updated THEN 1 - announced ELSE announced)
              /\ UNCHANGED hist
Tick == /\ DEPTH = 0 /\ \E v \in Voters : votes[v].left > 0
        /\ votes' = [v \in Voters |-> IF votes[v].left > 0 THEN [votes[v] EXCEPT !.left = @ - 1] ELSE votes[v]]
        /\ UNCHANGED <<local, seq, announced, hist>>
\* ---- C17 on the design
UpdateAct == [][local' # local => /\ Count(votes', local') >= MIN
                                   /\ \A b \in ADDRS \ {local'} : Count(votes', b) < Thr(Count(votes', local'))
                                   /\ seq' # seq /\ announced' # announced]_vars
\* the single pass of the code agrees with the declarative winner for every vote map and every iteration order
Perms == {p \in [1..V -> Voters] : \A i, j \in 1..V : i # j => p[i] # p[j]}
VoteMaps == [Voters -> {[addr |-> a, left |-> l] : a \in ADDRS, l \in {0, 1}}]
ASSUME \A vs \in VoteMaps : \A p \in Perms : CodeWinner(vs, [i \in 1..V |-> p[i]]) = Winner(vs)
\* fewer liars than MIN can never move the address: a winner always has at least MIN votes
ASSUME \A vs \in VoteMaps : Winner(vs) # "none" => Count(vs, Winner(vs)) >= MIN
\* ---- behaviours for the real service
P(i) == "p" \o ToString(i)
Rnd(S) == RandomElement(S)
SockSet == IF MODE = "dual" THEN {"X4", "Y4", "X6", "Y6", "L4"} ELSE {"X4", "Y4", "Z4", "L4"}
Sim == /\ DEPTH > 0 /\ UNCHANGED <<votes, local, seq, announced>>
       /\ IF hist = <<>> THEN hist' = <<[o |-> "reset", mode |-> MODE, vote_min |-> Rnd({2, 3}), vote_dur |-> 120]>>
          ELSE IF Len(hist) <= 7 THEN hist' = Append(hist, [o |-> "established", rec |-> P(Len(hist)) \o ":1:" \o (IF MODE = "dual" THEN "both" ELSE "v4"), dir |-> Rnd({"Out", "Out", "Out", "In"})])
          ELSE hist' = Append(hist, Rnd({[o |-> "response_in", req |-> "@" \o P(Rnd(1..7)), body |-> [t |-> "pong", seq |-> 1, sock |-> Rnd(SockSet)]],
                                          [o |-> "response_in", req |-> "@" \o P(Rnd(1..7)), body |-> [t |-> "pong", seq |-> 1, sock |-> Rnd(SockSet)]],
                                          [o |-> "response_in", req |-> "@" \o P(Rnd(1..7)), body |-> [t |-> "pong", seq |-> 1, sock |-> Rnd(SockSet)]],
                                          [o |-> "advance", ms |-> 36001000],
                                          [o |-> "age", ms |-> Rnd({40000, 80000, 121000})],
                                          [o |-> "fail", req |-> "@" \o P(Rnd(1..7))]}))
MCNext == IF DEPTH > 0 THEN Sim ELSE Tick \/ \E v \in Voters, a \in ADDRS : Pong(v, a)
Spec == Init /\ [][MCNext]_vars
Emit == DEPTH = 0 \/ Len(hist) <= DEPTH \/ PrintT(<<"REPLAY", ToJson(hist)>>)
=============================================================================
