SPECIFICATION Spec
CONSTANTS
  V = 5
  MIN = 3
  D = 2
  ADDRS = {"A", "B", "C"}
  DEPTH = 0
  MODE = "ip4"
PROPERTY UpdateAct
CHECK_DEADLOCK FALSE
