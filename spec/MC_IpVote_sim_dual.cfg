SPECIFICATION Spec
CONSTANTS
  V = 2
  MIN = 2
  D = 2
  ADDRS = {"A"}
  DEPTH = 40
  MODE = "dual"
INVARIANT Emit
CHECK_DEADLOCK FALSE
