SPECIFICATION Spec
CONSTANTS
  V = 2
  MIN = 2
  D = 2
  ADDRS = {"A"}
  DEPTH = 40
  MODE = "ip4"
INVARIANT Emit
CHECK_DEADLOCK FALSE
