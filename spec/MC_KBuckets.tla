---------------------------- MODULE MC_KBuckets ----------------------------
(* Model-checking / behaviour-generation wrapper for KBuckets.                        *)
EXTENDS KBuckets, TLC, Json, SequencesExt
CONSTANTS KEYS, SUBS, VERS, CFG, DEPTH, TARGETS, ENTRYOPS, PREFILL, OPSEL, DIRS, STATES
VARIABLES tb, stamp, lastop, lastret, hist, res, script
vars == <<tb, stamp, lastop, lastret, hist, res, script>>

\* the configurations (TLC cfg files cannot hold records)
CfgSmall  == [K |-> 2, maxin |-> 1, bl |-> 0, tl |-> 0, pt |-> 1, bits |-> 3]
CfgSmallB == [K |-> 2, maxin |-> 2, bl |-> 0, tl |-> 0, pt |-> 0, bits |-> 3]
CfgIp     == [K |-> 2, maxin |-> 2, bl |-> 2, tl |-> 2, pt |-> 1, bits |-> 3]
CfgMid    == [K |-> 3, maxin |-> 2, bl |-> 0, tl |-> 0, pt |-> 1, bits |-> 3]
CfgReal   == [K |-> 16, maxin |-> 3, bl |-> 0, tl |-> 0, pt |-> 2, bits |-> 6]
CfgRealIp2 == [K |-> 16, maxin |-> 16, bl |-> 2, tl |-> 10, pt |-> 1, bits |-> 6]
CfgRealIp == [K |-> 16, maxin |-> 16, bl |-> 2, tl |-> 10, pt |-> 1, bits |-> 7]

States == STATES   Dirs == DIRS
AllOps == [o : {"iou"}, k : KEYS, sub : SUBS, ver : VERS, st : States, dr : Dirs]
       \cup [o : {"un"}, k : KEYS, sub : SUBS, ver : VERS, st : States \cup {"-"}]
       \cup [o : {"uns"}, k : KEYS, st : States, dr : Dirs \cup {"-"}]
       \cup [o : {"rm"}, k : KEYS]
       \cup (IF ENTRYOPS THEN [o : {"ent_ins"}, k : KEYS, sub : SUBS, ver : VERS, st : States, dr : Dirs]
                              \cup [o : {"ent_upd"}, k : KEYS, st : States, dr : Dirs]
                              \cup [o : {"ent_rm"}, k : KEYS] ELSE {})
       \cup [o : {"iter"}]
       \cup [o : {"closest", "closest_pred"}, t : TARGETS]
       \cup (IF TARGETS = {} THEN {} ELSE [o : {"nbd"}, ds : {<<1>>, <<CFG.bits>>, <<2, 1>>, <<0, CFG.bits, CFG.bits + 1>>, <<0>>, <<0, 1>>}, max : {1, CFG.K}])
       \cup [o : {"tick"}, d : {1}]
Ops == IF OPSEL = {} THEN AllOps ELSE {op \in AllOps : op.o \in OPSEL}

Reset == [o |-> "reset", K |-> CFG.K, maxin |-> CFG.maxin, bl |-> CFG.bl, tl |-> CFG.tl, pt |-> CFG.pt, bits |-> CFG.bits]

\* rank-normalise the stamps per bucket so that the reachable space is finite without a step counter
RankIn(tb2, st2, b, k) == Cardinality({x \in BKeys(tb2, b) : st2[x] < st2[k]}) * 2
Norm(tb2, st2) == [k \in DOMAIN st2 |-> RankIn(tb2, st2, BucketOf(k), k)]

\* optional scripted prefix (simulation at K = 16): the walk first executes `script`, one transition per
\* operation, then continues with free operations
Top == CFG.bits - 1
KeysIn(b) == {k \in KEYS : BucketOf(k) = b}
Iou(k, sub, st, dr) == [o |-> "iou", k |-> k, sub |-> sub, ver |-> 1, st |-> st, dr |-> dr]
\* scenario "fill": PREFILL nodes in the top bucket, the first `pat` of them disconnected
FillOps(pat, n, sub) == LET ks == SetToSeq(KeysIn(Top)) IN
   [i \in 1..(IF n < Len(ks) THEN n ELSE Len(ks)) |-> Iou(ks[i], sub, IF i <= pat THEN "D" ELSE "C", IF i % 3 = 0 THEN "I" ELSE "O")]
\* scenario "ip": full top bucket without ip4 (2 disconnected first), a connected candidate of subnet s1
\* waiting in its pending slot, and two s1 nodes in each of the buckets 1 .. Top-1
RECURSIVE TwoEach(_)
TwoEach(b) == IF b < 1 THEN <<>> ELSE
   LET ks == SetToSeq(KeysIn(b)) IN TwoEach(b - 1) \o [i \in 1..(IF Len(ks) < 2 THEN Len(ks) ELSE 2) |-> Iou(ks[i], "s1", "C", "O")]
IpOps == LET ks == SetToSeq(KeysIn(Top)) IN
   FillOps(2, CFG.K, "n") \o <<Iou(ks[CFG.K + 1], "s1", "C", "O")>> \o TwoEach(Top - 1)
\* scenario "pend": full top bucket (2 disconnected first, the third node already in s1) and an s1 candidate pending
PendOps == LET ks == SetToSeq(KeysIn(Top))  f == FillOps(2, CFG.K, "n") IN
   [i \in 1..Len(f) |-> IF i = 3 THEN [f[i] EXCEPT !.sub = "s1"] ELSE f[i]] \o <<Iou(ks[CFG.K + 1], "s1", "C", "O")>>
\* scenario "head": full top bucket whose only disconnected node is the head, a connected candidate pending, then the head is
\* removed and the free slot taken by another connected node while the candidate waits
HeadOps == LET ks == SetToSeq(KeysIn(Top)) IN
   FillOps(1, CFG.K, "n") \o <<Iou(ks[CFG.K + 1], "n", "C", "O"), [o |-> "rm", k |-> ks[1]], Iou(ks[CFG.K + 2], "n", "C", "O")>>
\* scenario "inc": full top bucket, head disconnected (last seen incoming), maxin - 1 connected incoming nodes; a connected incoming
\* candidate is accepted as pending; then an existing node turns incoming, so that the limit is reached while the candidate waits
IncOps == LET ks == SetToSeq(KeysIn(Top)) IN
   [i \in 1..CFG.K |-> Iou(ks[i], "n", IF i = 1 THEN "D" ELSE "C", IF i = 1 \/ (i >= 2 /\ i <= CFG.maxin) THEN "I" ELSE "O")]
   \o <<Iou(ks[CFG.K + 1], "n", "C", "I"), [o |-> "uns", k |-> ks[CFG.K], st |-> "C", dr |-> "I"]>>
\* scenario "pdis": full top bucket with 3 disconnected nodes in front; a connected candidate becomes pending and is then reported
\* disconnected while it waits: when its time has come it replaces the head and joins the *end* of the disconnected group
PdisOps == LET ks == SetToSeq(KeysIn(Top)) IN
   [i \in 1..CFG.K |-> Iou(ks[i], "n", IF i <= 3 THEN "D" ELSE "C", "O")]
   \o <<Iou(ks[CFG.K + 1], "n", "C", "O"), [o |-> "uns", k |-> ks[CFG.K + 1], st |-> "D", dr |-> "-"]>>
\* scenario "ipupd": full top bucket, a candidate *without* ip4 pending, subnet s1 saturated elsewhere (two nodes in each of the buckets
\* 1 .. Top-1 = the table limit); then the candidate's record is updated into s1 while it is still pending
IpUpdOps == LET ks == SetToSeq(KeysIn(Top)) IN
   [i \in 1..CFG.K |-> Iou(ks[i], IF i = 3 THEN "s1" ELSE "n", IF i <= 2 THEN "D" ELSE "C", "O")] \o <<Iou(ks[CFG.K + 1], "n", "C", "O")>> \o TwoEach(Top - 1)
   \o <<Iou(1, "s1", "C", "O")>>      \* 1 (top bucket) + 2 * (Top - 1) + 1 (bucket 0) = the table limit of CfgRealIp2
   \o <<[o |-> "un", k |-> ks[CFG.K + 1], sub |-> "s1", ver |-> 1, st |-> "-"]>>
\* scenario "pre": full top bucket of disconnected nodes only, a connected candidate pending; a slot is freed before the candidate's
\* time has come and the candidate is reported again, now disconnected: it takes the slot and leaves the pending slot
PreOps == LET ks == SetToSeq(KeysIn(Top)) IN
   [i \in 1..CFG.K |-> Iou(ks[i], "n", "D", "O")]
   \o <<Iou(ks[CFG.K + 1], "n", "C", "O"), [o |-> "rm", k |-> ks[1]], Iou(ks[CFG.K + 1], "n", "D", "O"), [o |-> "tick", d |-> 1], [o |-> "iter"]>>
\* scenario "preip": full top bucket with two s1 nodes, a candidate without ip4 pending; a slot is freed and the candidate is reported
\* again with a record in s1: the bucket limit refuses it
PreIpOps == LET ks == SetToSeq(KeysIn(Top)) IN
   [i \in 1..CFG.K |-> Iou(ks[i], IF i \in {3, 4} THEN "s1" ELSE "n", IF i <= 2 THEN "D" ELSE "C", "O")]
   \o <<Iou(ks[CFG.K + 1], "n", "C", "O"), [o |-> "rm", k |-> ks[5]], Iou(ks[CFG.K + 1], "s1", "C", "O"), [o |-> "iter"], [o |-> "tick", d |-> 1], [o |-> "iter"]>>
Init == \E pat \in (IF PREFILL = 0 THEN {0} ELSE IF PREFILL >= 92 THEN {PREFILL} ELSE {0, 1, 3, PREFILL}) :
          /\ script = (IF PREFILL = 0 THEN <<>> ELSE IF PREFILL = 99 THEN IpOps ELSE IF PREFILL = 98 THEN PendOps ELSE IF PREFILL = 97 THEN HeadOps ELSE IF PREFILL = 96 THEN IncOps ELSE IF PREFILL = 95 THEN PdisOps ELSE IF PREFILL = 94 THEN IpUpdOps ELSE IF PREFILL = 93 THEN PreOps ELSE IF PREFILL = 92 THEN PreIpOps ELSE FillOps(pat, PREFILL, "n"))
          /\ tb = EmptyTable(CFG) /\ stamp = <<>>
          /\ lastop = Reset /\ lastret = "ok" /\ hist = <<Reset>> /\ res = [tb |-> <<>>, ret |-> "ok"]
\* (primed variables are bound in sequence so that Step is evaluated once per successor: TLC
\*  re-evaluates a LET definition at every use)
Do(op) == /\ lastop' = op
          /\ res' = Step(tb, CFG, op)
          /\ tb' = res'.tb
          /\ lastret' = res'.ret
          /\ stamp' = Norm(tb', StampStep(stamp, Cardinality(KEYS) + 2, tb, tb', CFG, op, lastret'))
          /\ hist' = Append(hist, op)
Next == IF script # <<>> THEN Do(Head(script)) /\ script' = Tail(script)
        ELSE \E kind \in (IF DEPTH > 0 THEN {RandomElement({x.o : x \in Ops})} ELSE {"any"}) :
             \E op \in (IF DEPTH > 0 THEN {RandomElement({o \in Ops : o.o = kind})} ELSE Ops) : Do(op) /\ script' = script   \* simulation: draw one op instead of enumerating all successors
Spec == Init /\ [][Next]_vars
View == <<tb, stamp, script>>   \* lastop, lastret, res, hist are observation variables; formulas reading them are action properties

\* ---- C07 / C16 on the design
C07State == /\ C07Cap(tb, CFG) /\ C07Place(tb, CFG) /\ C07Unique(tb, CFG) /\ C07Groups(tb, CFG)
            /\ C07Incoming(tb, CFG) /\ FcpOk(tb, CFG) /\ C07Order(tb, CFG, stamp)
C16State == C16Bucket(tb, CFG, SUBS \ {"n"}) /\ C16Table(tb, CFG, SUBS \ {"n"})
C07Step  == [][/\ C07PendTimeout(tb, tb', CFG, lastop') /\ C07PendEvict(tb, tb', CFG, lastop')
               /\ C07PendDiscard(tb, tb', CFG, lastop', lastret') /\ C07NoLoss(tb, tb', CFG, lastop')]_vars
\* ---- C08 on the design
C08Post(t, op, ret) ==
            /\ (op.o \in {"closest"} => C08Closest(t, CFG, op, ret))
            /\ (op.o = "closest_pred" => C08Closest(t, CFG, op, [i \in 1..Len(ret) |-> ret[i][1]]) /\ C08Flags(t, CFG, ret))
            /\ (op.o = "nbd" => C08Nbd(t, CFG, op, ret))
C08Step == [][C08Post(tb', lastop', lastret')]_vars
\* the bucket visiting order is a permutation of all buckets, for every distance (pure-function obligation)
ASSUME \A d \in 0..(Pow2(CFG.bits) - 1) :
         LET o == BucketOrder(d, CFG.bits) IN Len(o) = CFG.bits /\ {o[i] : i \in 1..Len(o)} = 0..(CFG.bits - 1)

ASSUME \A d \in 0..255 : LET o == BucketOrder(d, 8) IN Len(o) = 8 /\ {o[i] : i \in 1..8} = 0..7
Emit == DEPTH = 0 \/ Len(hist) <= DEPTH \/ PrintT(<<"REPLAY", ToJson(hist)>>)
\* ---- coverage goals
FullB(b) == Len(tb[b].nodes) = CFG.K
GoalPendingApplied  == ~(\E b \in Buckets(CFG) : lastop.o # "reset" /\ FullB(b) /\ ~tb[b].pend.on /\ lastop.o = "iter" /\ lastret # <<>> /\ Len(hist) > 6)
GoalPendingDropped  == ~(lastop.o = "uns" /\ lastop.st = "C" /\ lastret = "UpdatedAndPromoted" /\ \E b \in Buckets(CFG) : FullB(b) /\ ~tb[b].pend.on /\ tb[b].fcp = CFG.K - 1)
GoalTooManyIncoming == ~(lastret = "Failed(TooManyIncoming)" /\ lastop.o = "uns")
GoalTableFilter     == ~(lastret = "Failed(TableFilter)" /\ lastop.o = "un")
GoalBucketFilter    == ~(lastret = "Failed(BucketFilter)")
\* the bucket filter decides at promotion time: the candidate is dropped because its subnet filled up while it waited
GoalApplyFilterDrop == ~(\E b \in Buckets(CFG) : script = <<>> /\ lastop.o = "iter" /\ FullB(b) /\ ~tb[b].pend.on
                           /\ SubCount(BVals(tb[b]), "s1") = CFG.bl /\ tb[b].nodes[1].val.sub = "n" /\ Len(hist) > CFG.K + 4
                           /\ \A i \in 1..Len(tb[b].nodes) : tb[b].nodes[i].key # SetToSeq(KeysIn(Top))[CFG.K + 1])
\* the candidate's time has come but the bucket has meanwhile become all-connected (its disconnected head was removed and the
\* slot refilled): the candidate is discarded, no connected node is evicted
GoalPendingVsConnectedHead == ~(\E b \in Buckets(CFG) : script = <<>> /\ lastop.o = "iter" /\ FullB(b) /\ ~tb[b].pend.on
                           /\ (\A i \in 1..Len(tb[b].nodes) : tb[b].nodes[i].st = "C")
                           /\ (\E i \in 1..Len(hist) : hist[i].o = "rm") /\ hist[Len(hist) - 1].o = "tick"
                           /\ \E k \in KeysIn(b) : (\E i \in 1..Len(hist) : hist[i].o = "iou" /\ hist[i].k = k) /\ (\A i \in 1..Len(hist) : ~(hist[i].o = "rm" /\ hist[i].k = k))
                                                   /\ \A i \in 1..Len(tb[b].nodes) : tb[b].nodes[i].key # k)
\* the candidate's time has come but the bucket has reached its limit of connected incoming nodes meanwhile: it is discarded
GoalPendingVsIncomingLimit == ~(\E b \in Buckets(CFG) : script = <<>> /\ lastop.o = "iter" /\ FullB(b) /\ ~tb[b].pend.on
                           /\ Cardinality({i \in 1..Len(tb[b].nodes) : tb[b].nodes[i].st = "C" /\ tb[b].nodes[i].dr = "I"}) = CFG.maxin
                           /\ tb[b].nodes[1].st = "D" /\ hist[Len(hist) - 1].o = "tick"
                           /\ \A i \in 1..Len(tb[b].nodes) : tb[b].nodes[i].key # SetToSeq(KeysIn(Top))[CFG.K + 1])
\* a candidate that was reported disconnected while waiting is applied: it sits behind the other disconnected nodes, not at the head
GoalDisconnectedPendingApplied == ~(\E b \in Buckets(CFG) : script = <<>> /\ lastop.o = "iter" /\ FullB(b) /\ ~tb[b].pend.on
                           /\ hist[Len(hist) - 1].o = "tick"
                           /\ \E i \in 2..Len(tb[b].nodes) : tb[b].nodes[i].key = SetToSeq(KeysIn(Top))[CFG.K + 1] /\ tb[b].nodes[i].st = "D")
\* the record update of a pending candidate into a saturated subnet is refused; the candidate is promoted with its old record
GoalPendingUpdateFiltered == ~(\E b \in Buckets(CFG) : script = <<>> /\ lastop.o = "iter" /\ FullB(b) /\ ~tb[b].pend.on /\ hist[Len(hist) - 1].o = "tick"
                           /\ \E i \in 1..Len(tb[b].nodes) : tb[b].nodes[i].key = SetToSeq(KeysIn(Top))[CFG.K + 1] /\ tb[b].nodes[i].val.sub = "n")
GoalPendingReinserted == ~(PREFILL = 93 /\ script = <<>> /\ lastop.o = "iter")
GoalPendingReinsertedFiltered == ~(PREFILL = 92 /\ script = <<>> /\ lastop.o = "iter")
GoalBucket0Closest  == ~(lastop.o = "closest" /\ lastop.t % 2 = 1 /\ Len(tb[0].nodes) = 1 /\ Len(lastret) >= 3)
=============================================================================
