SPECIFICATION Spec
CONSTANTS
  KEYS = {2, 3, 4, 5, 6}
  SUBS = {"n"}
  VERS = {1}
  CFG <- CfgSmall
  DEPTH = 0
  TARGETS = {}
  ENTRYOPS = TRUE
  PREFILL = 0
  OPSEL = {}
  DIRS = {"I", "O"}
  STATES = {"C", "D"}
INVARIANTS C07State
PROPERTY C07Step
VIEW View
CHECK_DEADLOCK FALSE
