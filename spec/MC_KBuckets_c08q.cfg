SPECIFICATION Spec
CONSTANTS
  KEYS = {1, 2, 3, 5, 6}
  SUBS = {"s1", "n"}
  VERS = {1}
  CFG <- CfgSmallB
  DEPTH = 0
  TARGETS = {0, 1, 2, 3, 4, 5, 6, 7}
  ENTRYOPS = FALSE
  PREFILL = 0
  OPSEL = {"iou", "rm", "closest", "closest_pred", "nbd"}
  DIRS = {"O"}
  STATES = {"C"}
PROPERTY C08Step
VIEW View
CHECK_DEADLOCK FALSE
