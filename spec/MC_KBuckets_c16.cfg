SPECIFICATION Spec
CONSTANTS
  KEYS = {2, 4, 5, 6}
  SUBS = {"s1", "n"}
  VERS = {1}
  CFG <- CfgIp
  DEPTH = 0
  TARGETS = {}
  ENTRYOPS = FALSE
  PREFILL = 0
  OPSEL = {"iou", "un", "uns", "rm", "iter", "tick"}
  DIRS = {"O"}
  STATES = {"C", "D"}
INVARIANTS C16State
VIEW View
CHECK_DEADLOCK FALSE
