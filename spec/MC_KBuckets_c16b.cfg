SPECIFICATION Spec
CONSTANTS
  KEYS = {4, 5, 6}
  SUBS = {"s1", "s2"}
  VERS = {1, 2}
  CFG <- CfgIp
  DEPTH = 0
  TARGETS = {}
  ENTRYOPS = FALSE
  PREFILL = 0
  OPSEL = {"iou", "un", "rm", "iter", "tick"}
  DIRS = {"O"}
  STATES = {"C", "D"}
INVARIANTS C16State
VIEW View
CHECK_DEADLOCK FALSE
