SPECIFICATION Spec
CONSTANTS
  KEYS = {32, 33, 34, 35, 36, 37, 38, 39, 40, 41, 42, 43, 44, 45, 46, 47, 48, 49}
  SUBS = {"n"}
  VERS = {1}
  CFG <- CfgReal
  DEPTH = 0
  TARGETS = {}
  ENTRYOPS = FALSE
  PREFILL = 93
  OPSEL = {"tick", "iter"}
  DIRS = {"O"}
  STATES = {}
INVARIANTS GoalPendingReinserted
VIEW View
CHECK_DEADLOCK FALSE
