SPECIFICATION Spec
CONSTANTS
  KEYS = {1, 2, 3, 4, 5, 8, 9, 16, 17, 32, 33, 34, 35, 36, 37, 38, 39, 40, 41, 42, 43, 44, 45, 46, 47, 48, 49}
  SUBS = {"n", "s1"}
  VERS = {1}
  CFG <- CfgRealIp2
  DEPTH = 0
  TARGETS = {}
  ENTRYOPS = FALSE
  PREFILL = 92
  OPSEL = {"tick", "iter"}
  DIRS = {"O"}
  STATES = {}
INVARIANTS GoalPendingReinsertedFiltered
VIEW View
CHECK_DEADLOCK FALSE
