SPECIFICATION Spec
CONSTANTS
  KEYS = {1, 2, 3, 5, 9, 17, 32, 33, 34, 35, 36, 37, 38, 39, 40, 41, 42, 43, 44, 45, 46, 47, 48, 49, 50, 51, 52}
  SUBS = {"n", "s1"}
  VERS = {1, 2}
  CFG <- CfgReal
  DEPTH = 40
  TARGETS = {0, 1, 3, 33, 63}
  ENTRYOPS = TRUE
  PREFILL = 14
  OPSEL = {}
  DIRS = {"I", "O"}
  STATES = {"C", "D"}
INVARIANTS Emit
VIEW View
CHECK_DEADLOCK FALSE
