SPECIFICATION Spec
CONSTANTS
  KEYS = {2, 3, 4, 5, 8, 9, 16, 17, 32, 33, 64, 65, 66, 67, 68, 69, 70, 71, 72, 73, 74, 75, 76, 77, 78, 79, 80, 81, 82, 83, 84, 85}
  SUBS = {"n", "s1", "s2"}
  VERS = {1, 2}
  CFG <- CfgRealIp
  DEPTH = 30
  TARGETS = {0, 65}
  ENTRYOPS = FALSE
  PREFILL = 99
  OPSEL = {}
  DIRS = {"I", "O"}
  STATES = {"C", "D"}
INVARIANTS Emit
VIEW View
CHECK_DEADLOCK FALSE
