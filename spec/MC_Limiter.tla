----------------------------- MODULE MC_Limiter -----------------------------
(* Model checking / behaviour generation for the GCRA limiter (Limiter<Key> of rate_limiter.rs): any arrival sequence   *)
(* (times, keys, batch sizes), any interleaving of prune calls; a second copy `g` of the limiter is never pruned.       *)
EXTENDS Filter, TLC, Json
CONSTANTS KEYS, TOKS, QUOTAS, H, MAXARR, DEPTH
VARIABLES q, l, g, now, led, hist, res, sh
vars == <<q, l, g, now, led, hist, res, sh>>

\* quotas (cfg files cannot hold records); period divisible by burst
QsA == {[b |-> 1, p |-> 3], [b |-> 2, p |-> 4], [b |-> 3, p |-> 6]}
QsB == {[b |-> 1, p |-> 1], [b |-> 2, p |-> 2], [b |-> 3, p |-> 3], [b |-> 4, p |-> 4]}
QsSim == {[b |-> b, p |-> b * t] : b \in 1..5, t \in 1..4}

Init == /\ q \in QUOTAS /\ l = LimNew(q) /\ g = LimNew(q) /\ now = 0 /\ led = <<>>
        /\ res = [l |-> l, ret |-> <<"Ok", 0>>] /\ sh = res
        /\ hist = <<[o |-> "reset", sut |-> "limiter", b |-> q.b, p |-> q.p]>>

Ops == (IF Len(led) < MAXARR THEN [o : {"allows"}, k : KEYS, n : TOKS] ELSE {})
       \cup [o : {"prune"}, lim : 0..now]          \* RateLimiter::prune passes the current time; any earlier limit is as harmless
       \cup (IF now < H THEN [o : {"tick"}, d : {1}] ELSE {})
Do(op) ==
  /\ now' = IF op.o = "tick" THEN now + op.d ELSE now
  /\ res' = LStep(l, now, op) /\ l' = res'.l
  /\ sh' = IF op.o = "prune" THEN [l |-> g, ret |-> <<"Ok", 0>>] ELSE LStep(g, now, op)
  /\ g' = sh'.l
  /\ led' = IF op.o = "allows"
            THEN Append(led, [t |-> now, w |-> op.n, k |-> op.k, ok |-> res'.ret[1] = "Ok", sh |-> sh'.ret[1] = "Ok"])
            ELSE led
  /\ hist' = Append(hist, op)
  /\ UNCHANGED q
\* simulation: the kind of operation is drawn first (more than half of the operations are requests), then the operation
SimKinds(r) == IF r <= 6 THEN {"allows"} ELSE IF r = 7 THEN {"prune"} ELSE {"tick"}
Next == IF DEPTH > 0
        THEN \E r \in {RandomElement(1..10)} :
               LET cand == {o \in Ops : o.o \in SimKinds(r)} IN
               \E op \in {RandomElement(IF cand = {} THEN Ops ELSE cand)} : Do(op)
        ELSE \E op \in Ops : Do(op)
Spec == Init /\ [][Next]_vars
View == <<q, l, g, now, led>>

\* ---- C18 on the design (limiter level)
C18Lim   == LViols(led, q) = {}
C18Exact == LExact(led, q)
\* the never-pruned copy differs only by keys whose bucket is full
ShadowRel == \A p \in g.tat : Has(l.tat, p[1]) => Get(l.tat, p[1]) = p[2]
Emit == DEPTH = 0 \/ Len(hist) <= DEPTH \/ PrintT(<<"REPLAY", ToJson(hist)>>)
\* coverage goals
Last == led[Len(led)]
\* refused one tick too early, accepted exactly on time
GoalRefusedThenOk == ~(Len(led) >= 3 /\ Last.ok /\ Last.w = 1 /\ led[Len(led) - 1].k = Last.k /\ ~led[Len(led) - 1].ok /\ led[Len(led) - 1].w = 1
                       /\ led[Len(led) - 1].t = Last.t - 1)
\* a key whose bucket is full again is pruned and comes back
GoalPrunedKeyBack == ~(Len(led) >= 2 /\ Last.ok /\ hist[Len(hist) - 1].o = "prune" /\ hist[Len(hist) - 1].lim = now
                       /\ \E j \in 1..(Len(led) - 1) : led[j].k = Last.k /\ led[j].t + q.p < Last.t)
\* a prune while the key is in debt must keep the debt: the next request is still refused
GoalPruneKeepsDebt == ~(Len(led) >= 3 /\ ~Last.ok /\ Last.w = 1 /\ hist[Len(hist) - 1].o = "prune" /\ hist[Len(hist) - 1].lim = now /\ now > 0)
GoalTooLarge == ~(Len(led) >= 1 /\ res.ret[1] = "TooLarge")
=============================================================================
