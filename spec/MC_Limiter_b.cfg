SPECIFICATION Spec
CONSTANTS
  KEYS = {1}
  TOKS = {1, 2, 3}
  QUOTAS <- QsB
  H = 4
  MAXARR = 6
  DEPTH = 0
INVARIANTS C18Lim C18Exact ShadowRel
VIEW View
CHECK_DEADLOCK FALSE
