SPECIFICATION Spec
CONSTANTS
  KEYS = {1, 2}
  TOKS = {1}
  QUOTAS <- QsA
  H = 7
  MAXARR = 7
  DEPTH = 0
INVARIANTS C18Lim C18Exact ShadowRel
VIEW View
CHECK_DEADLOCK FALSE
