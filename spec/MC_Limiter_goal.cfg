SPECIFICATION Spec
CONSTANTS
  KEYS = {1, 2}
  TOKS = {1, 3}
  QUOTAS <- QsA
  H = 7
  MAXARR = 7
  DEPTH = 0
CHECK_DEADLOCK FALSE
