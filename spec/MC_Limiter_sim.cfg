SPECIFICATION Spec
CONSTANTS
  KEYS = {1, 2, 3}
  TOKS = {1, 2, 3}
  QUOTAS <- QsSim
  H = 40
  MAXARR = 40
  DEPTH = 30
INVARIANTS Emit
CHECK_DEADLOCK FALSE
