----------------------------- MODULE MC_Lookup -----------------------------
(* Behaviours for the lookups of the real service (src/service.rs: start_findnode_query,             *)
(* start_predicate_query, send_rpc_query, the NODES / failure paths into the query pool, the result    *)
(* callback of QueryEvent::Finished | TimedOut) with a scripted handler - the service-level clauses of  *)
(* C09 (callback exactly once, no peer contacted twice, bounded requests in flight) and C10 (result     *)
(* sound, ordered, complete).  The query state machines themselves are decided by Query.tla/MC_Query;   *)
(* this module only generates schedules: which outstanding request is answered (by a second real node   *)
(* with a drawn table), answered empty, failed, or left to time out, and when virtual time passes.      *)
EXTENDS Integers, Sequences, FiniteSets, TLC, Json, SequencesExt
CONSTANTS DEPTH, MODE, LEN      \* DEPTH: print threshold of the pipeline, LEN: length of a behaviour
VARIABLES hist
vars == <<hist>>
P(i) == "p" \o ToString(i)
Rnd(S) == RandomElement(S)
Shape(i) == IF MODE = "dual" THEN <<"v4", "v6", "both", "v4">>[(i % 4) + 1] ELSE "v4"      \* one record per node
Rec(i, d) == P(i) \o ":1:" \o Shape(i)
\* a drawn table of 3..7 records for an honest responder
Table(d) == LET n == Rnd(3..7) IN [j \in 1..n |-> Rec(Rnd(1..40), j)]
NInit == 6
Init == hist = <<>>
Sim == /\ DEPTH > 0 /\ Len(hist) < LEN
       /\ IF hist = <<>> THEN hist' = <<[o |-> "reset", mode |-> MODE, query_timeout |-> 60, peer_timeout |-> 2, par |-> Rnd({1, 2, 3, 3}), cosim |-> TRUE]>>
          ELSE IF Len(hist) <= NInit THEN hist' = Append(hist, IF Rnd({1, 2, 3}) = 1 THEN [o |-> "established", rec |-> Rec(Len(hist), 0), dir |-> "Out"]
                                                                 ELSE [o |-> "add_enr", rec |-> Rec(Len(hist), 0)])
          ELSE IF Len(hist) = NInit + 1 THEN hist' = Append(hist, IF Rnd({1, 2, 3}) = 1
                                                                   THEN [o |-> "lookup", target |-> [peer |-> P(Rnd(1..40))], pred |-> "udp4", k |-> Rnd({1, 2, 3, 16})]
                                                                   ELSE [o |-> "lookup", target |-> [peer |-> P(Rnd(1..40))]])
          \* the tail: ten peer time-outs in a row let the lookups run out of candidates and finish by themselves (unless the walk drew a
          \* query time-out earlier), then the query time-out cuts off whatever is still open
          ELSE IF Len(hist) >= LEN - 12 /\ Len(hist) < LEN - 2 THEN hist' = Append(hist, [o |-> "age", ms |-> 2100])
          ELSE IF Len(hist) = LEN - 2 THEN hist' = Append(hist, [o |-> "age", ms |-> 61000])
          ELSE IF Len(hist) = LEN - 1 THEN hist' = Append(hist, [o |-> "end"])
          ELSE IF Len(hist) >= LEN THEN FALSE
          ELSE hist' = Append(hist, Rnd({[o |-> "honest_reply", req |-> "#" \o ToString(Rnd({1, 1, 2, 3})), table |-> Table(0)],
                                          [o |-> "honest_reply", req |-> "#" \o ToString(Rnd({1, 1, 2, 3})), table |-> Table(0)],
                                          [o |-> "honest_reply", req |-> "#" \o ToString(Rnd({1, 1, 2, 3})), table |-> Table(0)],
                                          [o |-> "response_in", req |-> "#" \o ToString(Rnd({1, 2})), body |-> [t |-> "nodes", total |-> 1, recs |-> <<>>]],
                                          [o |-> "fail", req |-> "#" \o ToString(Rnd({1, 2, 3}))],
                                          [o |-> "age", ms |-> Rnd({700, 2100})],
                                          [o |-> "poke"],
                                          \* now and then the query time-out strikes in the middle, and another lookup follows (possibly while requests of
                                          \* the one before are still unanswered: "#1" then names such a request)
                                          \* (or half of it: two of these with answers in between leave a lookup past its deadline that has just sent requests)
                                          IF Rnd(1..3) = 1 THEN [o |-> "age", ms |-> 61000] ELSE IF Rnd(1..2) = 1 THEN [o |-> "age", ms |-> 31000] ELSE [o |-> "age", ms |-> 700],
                                          IF Rnd(1..2) = 1 THEN (IF Rnd(1..3) = 1 THEN [o |-> "lookup", target |-> [peer |-> P(Rnd(1..40))], pred |-> "udp4", k |-> Rnd({1, 2})]
                                                                 ELSE [o |-> "lookup", target |-> [peer |-> P(Rnd(1..40))]])
                                          ELSE [o |-> "fail", req |-> "#" \o ToString(Rnd({1, 2, 3}))]}))
MCNext == Sim
Spec == Init /\ [][MCNext]_vars
Emit == DEPTH = 0 \/ Len(hist) <= DEPTH \/ PrintT(<<"REPLAY", ToJson(hist)>>)
=============================================================================
