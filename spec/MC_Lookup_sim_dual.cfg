SPECIFICATION Spec
CONSTANTS
  DEPTH = 40
  LEN = 36
  MODE = "dual"
INVARIANTS Emit
CHECK_DEADLOCK FALSE
