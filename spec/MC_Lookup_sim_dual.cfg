SPECIFICATION Spec
CONSTANTS
  DEPTH = 40
  LEN = 46
  MODE = "dual"
INVARIANTS Emit
CHECK_DEADLOCK FALSE
