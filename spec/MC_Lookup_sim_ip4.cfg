SPECIFICATION Spec
CONSTANTS
  DEPTH = 40
  LEN = 46
  MODE = "ip4"
INVARIANTS Emit
CHECK_DEADLOCK FALSE
