SPECIFICATION Spec
CONSTANTS
  KEYS = {1, 2, 3}
  CFGS <- McCfgs
  MAXAGE = 4
  DEPTH = 0
INVARIANTS NoStale Bound EvictLru Ordered
VIEW View
CHECK_DEADLOCK FALSE
