------------------------------- MODULE MC_Lru -------------------------------
(* Model-checking / behaviour-generation wrapper for LruTimeCache.               *)
EXTENDS LruTimeCache, TLC, Json
CONSTANTS KEYS, CFGS, MAXAGE, DEPTH
VARIABLES q, cfg, last, hist, res
vars == <<q, cfg, last, hist, res>>
McCfgs == {[cap |-> 1, ttl |-> 2], [cap |-> 2, ttl |-> 2], [cap |-> 3, ttl |-> 1]}
McCfgsBig == {[cap |-> c, ttl |-> t] : c \in 1..4, t \in 1..3}

Ops == [o : {"insert"}, k : KEYS, v : {1, 2}]
       \cup [o : {"get", "get_mut", "peek", "remove"}, k : KEYS]
       \cup [o : {"purge", "len"}]
       \cup [o : {"tick"}, d : {1, 2}]

NoOp == [o |-> "reset"]
Init == /\ cfg \in CFGS /\ q = <<>>
        /\ last = [op |-> NoOp, pre |-> <<>>, ret |-> None] /\ res = [q |-> <<>>, ret |-> None]
        /\ hist = <<[o |-> "reset", cap |-> cfg.cap, ttl |-> cfg.ttl]>>
Next == \E op \in Ops :
          /\ res' = Step(q, cfg, op, MAXAGE)
          /\ q' = res'.q /\ UNCHANGED cfg
          /\ last' = [op |-> op, pre |-> q, ret |-> res'.ret]
          /\ hist' = Append(hist, op)
Spec == Init /\ [][Next]_vars
View == <<q, cfg, last>>

\* ---- C15(a) on the design
NoStale  == last.op.o = "reset" \/ NoStaleStep(last.pre, cfg, last.op, last.ret)
Bound    == BoundState(q, cfg)
EvictLru == last.op.o = "reset" \/ EvictLruStep(last.pre, cfg, last.op, q)
Ordered  == AgeOrdered(q)
\* behaviour export in simulation mode
Emit == DEPTH = 0 \/ Len(hist) <= DEPTH \/ PrintT(<<"REPLAY", ToJson(hist)>>)
\* coverage goals (trap invariants: a counterexample is a behaviour reaching the goal)
GoalStaleLookup == ~(IsLookup(last.op) /\ Idx(last.pre, last.op.k) # 0 /\ ~Live(cfg, last.pre[Idx(last.pre, last.op.k)]))
GoalEvict       == ~(last.op.o = "insert" /\ Len(last.pre) = cfg.cap /\ Idx(last.pre, last.op.k) = 0)
GoalRefreshKeepsAlive == ~(IsLookup(last.op) /\ last.ret.hit /\ last.op.o # "peek" /\ last.pre[Idx(last.pre, last.op.k)].age = cfg.ttl)
=============================================================================
