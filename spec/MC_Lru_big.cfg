SPECIFICATION Spec
CONSTANTS
  KEYS = {1, 2, 3, 4}
  CFGS <- McCfgsBig
  MAXAGE = 5
  DEPTH = 0
INVARIANTS NoStale Bound EvictLru Ordered
VIEW View
CHECK_DEADLOCK FALSE
