SPECIFICATION Spec
CONSTANTS
  KEYS = {1, 2, 3, 4, 5}
  CFGS <- McCfgsBig
  MAXAGE = 0
  DEPTH = 25
INVARIANTS Emit
CHECK_DEADLOCK FALSE
