SPECIFICATION Spec
CONSTANTS
  DEPTH = 0
  MAXPK = 17
  TOTALS = {0, 1, 2, 16, 99}
INVARIANTS AcceptedExact BanIffOff PacketCap
PROPERTY AfterDone
CHECK_DEADLOCK FALSE
