------------------------------ MODULE MC_Nodes ------------------------------
(* C11 on the design: (1) the requested distances for every log2 class and an honest responder's  *)
(* answer are never rejected (pure-function obligations, all 257 classes); (2) a malicious           *)
(* responder's packets (any totals, off-distance records, the requester's record, duplicates,        *)
(* packets after completion) explored exhaustively; (3) behaviours for the real service.             *)
EXTENDS NodesExchange, Geometry, TLC, Json, SequencesExt
CONSTANTS DEPTH, MAXPK, TOTALS
VARIABLES x, npk, offSeen, hist, phase
vars == <<x, npk, offSeen, hist, phase>>
P(i) == "p" \o ToString(i)

\* ---- (1) honest responder, all classes.  Its table may hold nodes at any distance; it answers with those requested.
HonestOk(d) ==
  LET ds == ReqDistances(d, 3)
      tables == {<<>>, <<d>>, <<256>>, <<1>>} \cup {<<a, b>> : a \in {ds[i] : i \in 1..Len(ds)}, b \in {1, 2, 255, 256}} IN
  \A tb \in tables :
     LET recs == HonestRecs(tb, ds)
         one == HandleNodes(X0(ds), [total |-> 1, recs |-> recs], 16)
         k == Len(recs) \div 2
         two == HandleNodes(HandleNodes(X0(ds), [total |-> 2, recs |-> SubSeq(recs, 1, k)], 16), [total |-> 2, recs |-> SubSeq(recs, k + 1, Len(recs))], 16) IN
     /\ ~one.banned /\ one.done /\ Reported(one.out) = recs
     /\ ~two.banned /\ two.done /\ Reported(two.out) = recs
ASSUME \A d \in 0..256 : HonestOk(d)
ASSUME \A d \in 1..256 : LET ds == ReqDistances(d, 3) IN Len(ds) = 3 /\ ds[1] = d /\ \A i \in 1..3 : ds[i] \in 0..256
ASSUME ReqDistances(1, 3) = <<1, 2, 0>> /\ ReqDistances(256, 3) = <<256, 255, 254>> /\ ReqDistances(0, 3) = <<0>>

\* ---- (2) malicious responder: abstract records in / off distance, own (0), the requester's (self), for ds = <<1, 2, 0>> and <<255, 256, 254>>
RecIn(ds)  == [d |-> ds[1], self |-> FALSE, n |-> "in"]
RecOff(ds) == [d |-> IF ds[1] = 255 THEN 250 ELSE 77, self |-> FALSE, n |-> "off"]
RecOwn     == [d |-> 0, self |-> FALSE, n |-> "own"]
RecSelfIn(ds)  == [d |-> ds[Len(ds)], self |-> TRUE, n |-> "L"]
RecSelfOff(ds) == [d |-> 9, self |-> TRUE, n |-> "L"]
Pks(ds) == {[total |-> t, recs |-> r] : t \in TOTALS, r \in {<<>>, <<RecIn(ds)>>, <<RecOff(ds)>>, <<RecOwn>>, <<RecSelfIn(ds)>>, <<RecSelfOff(ds)>>, <<RecIn(ds), RecOff(ds)>>, <<RecIn(ds), RecIn(ds)>>}}
InitDs == {<<1, 2, 0>>, <<255, 256, 254>>, <<0>>}
Init == \E ds \in InitDs : x = X0(ds) /\ npk = 0 /\ offSeen = FALSE /\ hist = <<>> /\ phase = "mal"
Packet == /\ phase = "mal" /\ DEPTH = 0 /\ npk < MAXPK
          /\ \E pk \in {q \in Pks(x.ds) : npk < 3 \/ q.recs = <<>> \/ (npk >= 14 /\ Len(q.recs) = 1)} :      \* arbitrary first packets, then fillers up to the cap, arbitrary again around it
               /\ x' = HandleNodes(x, pk, 16)
               /\ npk' = npk + 1
               /\ offSeen' = (offSeen \/ (~x.done /\ (\E i \in 1..Len(pk.recs) : ~InList(pk.recs[i].d, x.ds)) ))
               /\ UNCHANGED <<hist, phase>>
\* properties of the exchange
AcceptedExact == \A i \in 1..Len(x.out) : InList(x.out[i].d, x.ds)
BanIffOff == (x.ds # <<0>>) => (x.banned <=> offSeen)
PacketCap == ~x.done => npk < MAXRESP
AfterDone == [][x.done => (x'.out = <<>> /\ x'.banned = x.banned /\ x'.done)]_vars

\* ---- (3) behaviours for the real service: one known peer R, a lookup whose first request goes to R, then R's packets
Others(r) == (1..40) \ {r}
InSet(r, ds)  == {p \in Others(r) : InList(PD[r][p], ds)}
OffSet(r, ds) == {p \in Others(r) : ~InList(PD[r][p], ds)}
Rnd(S) == RandomElement(S)
RecsChoice(r, ds) ==
  LET i1 == IF InSet(r, ds) = {} THEN <<>> ELSE <<P(Rnd(InSet(r, ds))) \o ":1:v4">>
      i2 == IF InSet(r, ds) = {} THEN <<>> ELSE <<P(Rnd(InSet(r, ds))) \o ":1:v4">>
      o1 == IF OffSet(r, ds) = {} THEN <<>> ELSE <<P(Rnd(OffSet(r, ds))) \o ":1:v4">> IN
  Rnd({<<>>, i1, i1 \o i2, o1, i1 \o o1, <<P(r) \o ":1:v4">>, <<"L">>, i1 \o <<P(r) \o ":1:v4">>, i1 \o <<"L">>, <<P(r) \o ":1:v4", P(r) \o ":1:v4">>})
Sim == /\ DEPTH > 0
       /\ \/ /\ hist = <<>>
             /\ \E r \in {Rnd(1..40)} : \E k \in {Rnd({0, 1, 2, 250, 253, 254, 255})} : \E same \in {Rnd({TRUE, FALSE, FALSE})} :
                  hist' = <<[o |-> "reset", mode |-> "ip4", maxnodes |-> 16],
                            [o |-> "add_enr", rec |-> P(r) \o ":1:v4"],
                            IF same THEN [o |-> "lookup", target |-> [peer |-> P(r)]] ELSE [o |-> "lookup", target |-> [xor |-> <<P(r), k>>]]>>
          \/ /\ hist # <<>>
             /\ LET r == CHOOSE r \in 1..40 : hist[2].rec = P(r) \o ":1:v4"
                    d == IF "peer" \in DOMAIN hist[3].target THEN 0 ELSE hist[3].target.xor[2] + 1
                    ds == ReqDistances(d, 3) IN
                \E honest \in {Rnd({TRUE, FALSE, FALSE, FALSE})} :
                  IF honest /\ ~\E i \in 1..Len(hist) : hist[i].o = "honest_reply"
                  THEN hist' = Append(hist, [o |-> "honest_reply", req |-> "r1", table |-> [i \in 1..6 |-> P(Rnd(Others(r))) \o ":1:v4"]])
                  ELSE hist' = Append(hist, [o |-> "response_in", req |-> "r1", body |-> [t |-> "nodes", total |-> Rnd(TOTALS), recs |-> RecsChoice(r, ds)]])
       /\ UNCHANGED <<x, npk, offSeen, phase>>
MCNext == IF DEPTH > 0 THEN Sim ELSE Packet
Spec == Init /\ [][MCNext]_vars
Emit == DEPTH = 0 \/ Len(hist) <= DEPTH \/ PrintT(<<"REPLAY", ToJson(hist)>>)
=============================================================================
