SPECIFICATION Spec
CONSTANTS
  DEPTH = 8
  MAXPK = 17
  TOTALS = {0, 1, 2, 3, 16, 99, 2000000000}
INVARIANTS Emit
CHECK_DEADLOCK FALSE
