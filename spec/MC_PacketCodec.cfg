SPECIFICATION Spec
INVARIANTS C05Strict C05Exact C05Partition
CHECK_DEADLOCK FALSE
