--------------------------- MODULE MC_PacketCodec ---------------------------
(* Enumeration of all abstract datagrams of PacketCodec: every state is one case.                    *)
(*   MC_PacketCodec.cfg      the design obligations of C05 over all cases (Verdict against Required / *)
(*                           WellFormed)                                                              *)
(*   MC_PacketCodec_emit.cfg prints every case with its verdict as one JSON line (`CASE`), from which *)
(*                           the pipeline (lib/codec_gen.py) assembles the behaviours to replay       *)
EXTENDS PacketCodec, TLC, Json, SequencesExt
VARIABLES c, hist
vars == <<c, hist>>

\* the operation handed to the harness: the recipe, its label, the departures from well-formedness and the design verdict
Op(d) == [o |-> d.shape, shape |-> d.shape, flag |-> d.flag, sig |-> d.sig, key |-> d.key, rec |-> d.rec, asz |-> d.asz,
          body |-> d.body, cut |-> d.cut, mask |-> d.mask, proto |-> d.proto, ver |-> d.ver,
          dev |-> SetToSeq(Devs(d)), vd |-> Verdict(d).err]
Reset == [o |-> "reset", seed |-> 0, k |-> 8]

Init == c \in Cases /\ hist = <<Reset, Op(c)>>
Next == UNCHANGED vars
Spec == Init /\ [][Next]_vars

C05Strict    == DesignStrict(c)
C05Exact     == DesignExact(c)
C05Partition == DesignPartition(c)
Emit == PrintT(<<"CASE", ToJson(Op(c))>>)
=============================================================================
