------------------------------ MODULE MC_Query ------------------------------
(* Query state machine composed with an arbitrary environment: any order of success / failure / *)
(* silence / late answers, any sets of returned peers (new, duplicate, closer, farther).         *)
EXTENDS Query, TLC, Json, SequencesExt
CONSTANTS N, CFGS, MAXT, DEPTH, MAXNEWS
VARIABLES q, now, contacted, everStalled, learned, succ, lastop, lastret, hist, res, done
vars == <<q, now, contacted, everStalled, learned, succ, lastop, lastret, hist, res, done>>
Peers == 1..N
\* configurations (cfg files cannot hold records)
CfgA == {[par |-> 2, nr |-> 3, pto |-> 1, pred |-> FALSE]}
CfgB == {[par |-> 1, nr |-> 2, pto |-> 1, pred |-> FALSE], [par |-> 2, nr |-> 2, pto |-> 2, pred |-> TRUE], [par |-> 3, nr |-> 1, pto |-> 1, pred |-> FALSE]}
CfgC == {[par |-> 1, nr |-> 2, pto |-> 1, pred |-> FALSE]}
CfgSim == {[par |-> p, nr |-> r, pto |-> 2, pred |-> b] : p \in 1..3, r \in 1..4, b \in BOOLEAN}
Match(p) == p % 2 = 1          \* which peers' records satisfy the predicate

InitCands == {<<>>} \cup {<<<<a, Match(a)>>>> : a \in Peers} \cup {<<<<a, Match(a)>>, <<b, Match(b)>>>> : a \in Peers, b \in Peers}
             \cup {<<<<a, Match(a)>>, <<b, Match(b)>>, <<c, Match(c)>>>> : a \in {2, 4}, b \in {1}, c \in {3}}
Init == \E cfg \in CFGS : \E cands \in InitCands :
          /\ q = New(cfg, cands) /\ now = 0 /\ contacted = <<>> /\ everStalled = FALSE
          /\ learned = {cands[i][1] : i \in 1..(IF Len(cands) < cfg.nr THEN Len(cands) ELSE cfg.nr)} /\ succ = {}
          /\ lastop = [o |-> "reset"] /\ lastret = <<"ok", 0>> /\ res = [q |-> q, ret |-> <<"ok", 0>>] /\ done = FALSE
          /\ hist = <<[o |-> "reset", pred |-> cfg.pred, par |-> cfg.par, nr |-> cfg.nr, pto |-> cfg.pto, cands |-> cands]>>

\* in simulation a peer may be reported with different records, some satisfying the predicate and some not
Ms(a) == IF DEPTH > 0 THEN BOOLEAN ELSE {Match(a)}
\* answers that name more peers than the lookup wants results (MAXNEWS >= 3; MAXNEWS = 33: such answers and empty ones only)
Triples(p) == {<<<<t[1], Match(t[1])>>, <<t[2], Match(t[2])>>, <<t[3], Match(t[3])>>>> :
                 t \in {x \in (Peers \ {p}) \X (Peers \ {p}) \X (Peers \ {p}) : x[1] # x[2] /\ x[2] # x[3] /\ x[1] # x[3]}}
NewsSets(p) == IF MAXNEWS = 33 THEN {<<>>} \cup Triples(p) ELSE (IF MAXNEWS >= 3 THEN Triples(p) ELSE {}) \cup
               {<<>>} \cup UNION {{<<<<a, m>>>> : m \in Ms(a)} : a \in Peers \ {p}}
               \cup (IF MAXNEWS >= 2 THEN UNION {{<<<<ab[1], m1>>, <<ab[2], m2>>>> : m1 \in Ms(ab[1]), m2 \in Ms(ab[2])} : ab \in (Peers \ {p}) \X (Peers \ {p})} ELSE {})
Ops == {[o |-> "next"]} \cup {[o |-> "tick", d |-> 1]}
       \cup {[o |-> "on_failure", p |-> contacted[i]] : i \in 1..Len(contacted)}
       \cup UNION {{[o |-> "on_success", p |-> contacted[i], news |-> ns] : ns \in NewsSets(contacted[i])} : i \in 1..Len(contacted)}
Accepted(op) == op.o = "on_success" /\ PIdx(q.ps, op.p) # 0 /\ q.ps[PIdx(q.ps, op.p)].st \in {"Waiting", "Unresponsive"} /\ q.prog # "Finished"
Do(op) == /\ ~done /\ (op.o = "tick" => now < MAXT)
          /\ lastop' = op
          /\ now' = IF op.o = "tick" THEN now + op.d ELSE now
          /\ res' = QStep(q, op, now')
          /\ q' = res'.q /\ lastret' = res'.ret
          /\ contacted' = IF res'.ret[1] = "contact" THEN Append(contacted, res'.ret[2]) ELSE contacted
          /\ everStalled' = (everStalled \/ q'.prog = "Stalled")
          /\ learned' = IF Accepted(op) THEN learned \cup {op.news[i][1] : i \in 1..Len(op.news)} ELSE learned
          /\ succ' = IF Accepted(op) THEN succ \cup {op.p} ELSE succ
          /\ done' = (res'.ret[1] = "Finished")
          /\ hist' = Append(hist, op)
\* simulation draws the kind, then the peer, then the answer (the set Ops is not built: with triples it has thousands of elements per step)
SimNext == \E k \in {RandomElement({"next", "tick"} \cup (IF contacted # <<>> THEN {"on_failure", "on_success"} ELSE {}))} :
             CASE k = "next" -> Do([o |-> "next"])
               [] k = "tick" -> Do([o |-> "tick", d |-> 1])
               [] k = "on_failure" -> \E p \in {contacted[RandomElement(1..Len(contacted))]} : Do([o |-> "on_failure", p |-> p])
               [] k = "on_success" -> \E p \in {contacted[RandomElement(1..Len(contacted))]} : \E ns \in {RandomElement(NewsSets(p))} :
                                        Do([o |-> "on_success", p |-> p, news |-> ns])
MCNext == IF DEPTH > 0 THEN SimNext ELSE \E op \in Ops : Do(op)
Spec == Init /\ [][MCNext]_vars /\ WF_vars(Do([o |-> "next"])) /\ WF_vars(Do([o |-> "tick", d |-> 1]))
View == <<q, now, contacted, everStalled, learned, succ, done>>

\* ---- C09
C09Nw   == NwInv(q)
C09Cap  == CapInv(q, everStalled)
C09Once == \A i, j \in 1..Len(contacted) : i # j => contacted[i] # contacted[j]
\* the lookup terminates: with time advancing and the machine polled, `next` eventually reports Finished (time bound MAXT
\* stands for the pool-level query timeout, which cuts the lookup off otherwise)
C09Terminates == <>(done \/ now = MAXT)
\* ---- C10 (at the end)
C10Result == done => LET r == Result(q) IN
               /\ Sorted(r) /\ Len(r) <= q.cfg.nr
               /\ \A i \in 1..Len(r) : r[i] \in succ /\ (q.cfg.pred => Match(r[i]))
               /\ (Len(r) < q.cfg.nr => \A p \in learned : \E i \in 1..Len(contacted) : contacted[i] = p)
Emit == DEPTH = 0 \/ Len(hist) <= DEPTH \/ PrintT(<<"REPLAY", ToJson(hist)>>)
GoalStalled == ~(q.prog = "Stalled" /\ q.nw > q.cfg.par)
GoalLateSuccess == ~(lastop.o = "on_success" /\ \E i \in 1..Len(q.ps) : q.ps[i].p = lastop.p /\ q.ps[i].st = "Succeeded" /\ q.nw = 0 /\ now >= 2)
GoalShortAfterBigAnswer == ~(done /\ Len(Result(q)) < q.cfg.nr /\ \E i \in 1..Len(hist) : hist[i].o = "on_success" /\ Len(hist[i].news) > q.cfg.nr)
GoalFinishFull == ~(done /\ Len(Result(q)) = q.cfg.nr /\ q.cfg.nr >= 2)
=============================================================================
