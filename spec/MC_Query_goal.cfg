SPECIFICATION Spec
CONSTANTS
  N = 6
  CFGS <- CfgA
  MAXT = 3
  DEPTH = 0
  MAXNEWS = 1
INVARIANTS C09Nw C09Cap C09Once C10Result
PROPERTY C09Terminates
VIEW View
CHECK_DEADLOCK FALSE
