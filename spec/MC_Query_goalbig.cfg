SPECIFICATION Spec
CONSTANTS
  N = 5
  CFGS <- CfgC
  MAXT = 3
  DEPTH = 0
  MAXNEWS = 33
INVARIANTS GoalShortAfterBigAnswer
VIEW View
CHECK_DEADLOCK FALSE
