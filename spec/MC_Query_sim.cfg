SPECIFICATION Spec
CONSTANTS
  N = 8
  CFGS <- CfgSim
  MAXT = 12
  DEPTH = 40
  MAXNEWS = 3
INVARIANTS Emit
CHECK_DEADLOCK FALSE
