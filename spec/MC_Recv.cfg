SPECIFICATION Spec
CONSTANTS
  IPS = {1, 2}
  NODES = {1}
  KINDS = {"msg", "way", "junk"}
  CFGS <- CfA
  H = 2
  MAXARR = 4
  MAXBL = 1
  BLOPS = {"expect", "unexpect", "ban_ip", "permit_ip", "ban_node", "permit_node"}
  DEPTH = 0
INVARIANTS C18R
VIEW View
CHECK_DEADLOCK FALSE
