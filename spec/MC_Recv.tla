------------------------------- MODULE MC_Recv -------------------------------
(* Model checking / behaviour generation for the receive task's handle_inbound (recv.rs) over the packet filter:          *)
(* datagrams of every kind (message naming a node id, WHOAREYOU, undecodable) from sources with and without an expected   *)
(* response, prune calls, ban / permit operations.  `g` is the copy whose limiter is never pruned.                         *)
EXTENDS Filter, TLC, Json, SequencesExt
CONSTANTS IPS, NODES, KINDS, CFGS, H, MAXARR, MAXBL, BLOPS, DEPTH
VARIABLES cfg, f, g, bl, exp, now, arr, nbl, hist, res, sh
vars == <<cfg, f, g, bl, exp, now, arr, nbl, hist, res, sh>>

Q(b, p) == [b |-> b, p |-> p]
C(en, rl, ipq, nodeq, totq, mn, mb, bd) ==
  [enabled |-> en, rl |-> rl, ipq |-> ipq, nodeq |-> nodeq, totq |-> totq, maxNodes |-> mn, maxBans |-> mb, banDur |-> bd]
CfA == {C(TRUE, TRUE, Q(2, 2), Q(1, 2), Q(3, 3), 0, 0, 2)}
CfSim == {C(TRUE, TRUE, ipq, nodeq, totq, 0, 0, bd) :
            ipq \in {NoQ, Q(1, 2), Q(2, 2), Q(3, 6)}, nodeq \in {NoQ, Q(1, 1), Q(2, 4)}, totq \in {Q(2, 2), Q(4, 4), Q(6, 6)}, bd \in {0, 3}}

Init == /\ cfg \in CFGS /\ f = FNew(cfg) /\ g = FNew(cfg) /\ bl = Bl0 /\ exp = {} /\ now = 0 /\ arr = <<>> /\ nbl = 0
        /\ res = [f |-> f, bl |-> bl, exp |-> exp, ret |-> OkRet] /\ sh = res
        /\ hist = <<[o |-> "reset", sut |-> "recv", enabled |-> cfg.enabled, rl |-> cfg.rl,
                     ipb |-> cfg.ipq.b, ipp |-> cfg.ipq.p, nodeb |-> cfg.nodeq.b, nodep |-> cfg.nodeq.p, totb |-> cfg.totq.b, totp |-> cfg.totq.p,
                     maxNodes |-> cfg.maxNodes, maxBans |-> cfg.maxBans, banDur |-> cfg.banDur]>>

BlOps == [o : {"ban_ip"} \cap BLOPS, ip : IPS, d : {0, 2}] \cup [o : {"unban_ip", "permit_ip", "unpermit_ip", "expect", "unexpect"} \cap BLOPS, ip : IPS]
         \cup [o : {"ban_node"} \cap BLOPS, node : NODES, d : {0, 2}] \cup [o : {"unban_node", "permit_node", "unpermit_node"} \cap BLOPS, node : NODES]
Useful(op) == CASE op.o = "unban_ip" -> Has(bl.bi, op.ip) [] op.o = "permit_ip" -> op.ip \notin bl.pi [] op.o = "unpermit_ip" -> op.ip \in bl.pi
                [] op.o = "unban_node" -> Has(bl.bn, op.node) [] op.o = "permit_node" -> op.node \notin bl.pn [] op.o = "unpermit_node" -> op.node \in bl.pn
                [] op.o = "expect" -> op.ip \notin exp [] op.o = "unexpect" -> op.ip \in exp
                [] OTHER -> TRUE
Dgrams == [o : {"dgram"}, ip : IPS, kind : KINDS \cap {"msg", "hs"}, node : NODES] \cup [o : {"dgram"}, ip : IPS, kind : KINDS \ {"msg", "hs"}, node : {0}]
Ops == (IF Len(arr) < MAXARR THEN Dgrams ELSE {})
       \cup (IF cfg.rl THEN {[o |-> "prune"]} ELSE {})
       \cup (IF now < H THEN [o : {"tick"}, d : {1}] ELSE {})
       \cup (IF nbl < MAXBL THEN {op \in BlOps : Useful(op)} ELSE {})
Do(op) ==
  /\ now' = IF op.o = "tick" THEN now + op.d ELSE now
  /\ res' = RStep(f, bl, cfg, now, exp, op) /\ f' = res'.f /\ bl' = res'.bl /\ exp' = res'.exp
  /\ sh' = IF op.o = "dgram" THEN RStep(g, bl, cfg, now, exp, op) ELSE [f |-> g, bl |-> bl, exp |-> exp, ret |-> OkRet]
  /\ g' = sh'.f
  /\ arr' = IF op.o = "dgram" THEN Append(arr, REntry(op, now, exp, bl, bl', res'.ret, sh'.ret)) ELSE arr
  /\ nbl' = IF op.o \in {"dgram", "prune", "tick"} THEN nbl ELSE nbl + 1
  /\ hist' = Append(hist, op)
  /\ UNCHANGED cfg
SimKinds(r) == IF r <= 5 THEN {"dgram"} ELSE IF r = 6 THEN {"prune"} ELSE IF r <= 8 THEN {"tick"} ELSE BLOPS
Next == IF DEPTH > 0
        THEN \E r \in {RandomElement(1..10)} :
               LET cand == {o \in Ops : o.o \in SimKinds(r)} IN
               \E op \in {RandomElement(IF cand = {} THEN Ops ELSE cand)} : Do(op)
        ELSE \E op \in Ops : Do(op)
Spec == Init /\ [][Next]_vars
View == <<cfg, f, g, bl, exp, now, arr, nbl>>

C18R == RViols(arr, cfg) = {}
Emit == DEPTH = 0 \/ Len(hist) <= DEPTH \/ PrintT(<<"REPLAY", ToJson(hist)>>)
LastA == arr[Len(arr)]
\* a solicited datagram of a banned, over-quota source is forwarded; the same source unsolicited is dropped
GoalSolicitedBypass == ~(Len(arr) >= 2 /\ LastA.out = "drop" /\ ~LastA.sol /\ LastA.bIp /\ \E j \in 1..(Len(arr) - 1) : arr[j].ip = LastA.ip /\ arr[j].sol /\ arr[j].bIp /\ arr[j].out = "inbound")
\* a WHOAREYOU / undecodable datagram of a banned node's IP passes (the node stage does not apply), a message of that node is dropped
GoalNodeStageOnlyMsg == ~(Len(arr) >= 3 /\ LastA.out = "drop" /\ LastA.bNode /\ ~LastA.bIp /\ LastA.ipBan = {}
                          /\ \E j, k \in 1..(Len(arr) - 1) : arr[j].out = "unrecognized" /\ arr[k].out = "inbound" /\ arr[k].node = 0 /\ Has(bl.bn, LastA.node))
\* a message of a banned node id from a source a response is expected from is forwarded
GoalSolicitedMsg == ~(Len(arr) >= 1 /\ LastA.sol /\ LastA.bNode /\ LastA.node # 0 /\ LastA.out = "inbound")
=============================================================================
