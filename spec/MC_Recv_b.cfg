SPECIFICATION Spec
CONSTANTS
  IPS = {1, 2}
  NODES = {1}
  KINDS = {"msg", "hs", "way", "junk"}
  CFGS <- CfA
  H = 1
  MAXARR = 4
  MAXBL = 2
  BLOPS = {"expect", "unexpect", "ban_ip", "permit_ip", "ban_node", "permit_node"}
  DEPTH = 0
INVARIANTS C18R
VIEW View
CHECK_DEADLOCK FALSE
