SPECIFICATION Spec
CONSTANTS
  IPS = {1}
  NODES = {1}
  KINDS = {"msg", "hs", "way", "junk"}
  CFGS <- CfA
  H = 1
  MAXARR = 4
  MAXBL = 3
  BLOPS = {"expect", "unexpect", "ban_ip", "ban_node"}
  DEPTH = 0
CHECK_DEADLOCK FALSE
