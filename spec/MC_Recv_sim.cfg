SPECIFICATION Spec
CONSTANTS
  IPS = {1, 2, 3}
  NODES = {1, 2, 3}
  KINDS = {"msg", "hs", "way", "junk"}
  CFGS <- CfSim
  H = 200
  MAXARR = 200
  MAXBL = 200
  BLOPS = {"expect", "unexpect", "ban_ip", "unban_ip", "permit_ip", "unpermit_ip", "ban_node", "unban_node", "permit_node", "unpermit_node"}
  DEPTH = 40
INVARIANTS Emit
CHECK_DEADLOCK FALSE
