SPECIFICATION Spec
INVARIANTS C06Strict C06Exact C06Other
CHECK_DEADLOCK FALSE
