SPECIFICATION Spec
INVARIANTS C06Strict C06Exact C06Other C06InnerListLength
CHECK_DEADLOCK FALSE
