----------------------------- MODULE MC_RpcCodec -----------------------------
(* Enumeration of all abstract messages of RpcCodec: every state is one case.                        *)
(*   MC_RpcCodec.cfg        the design obligations of C06 that the pinned tree's decision structure   *)
(*                          meets (Verdict against Required / WellFormed)                             *)
(*   MC_RpcCodec_inner.cfg  the one it does not meet: bytes after the inner list of a NODES response  *)
(*                          (F10); TLC's counterexample is replayed on the code                       *)
(*   MC_RpcCodec_emit.cfg   prints every case with its verdict as one JSON line (`CASE`)              *)
EXTENDS RpcCodec, TLC, Json, SequencesExt
VARIABLES c, hist
vars == <<c, hist>>

Op(m) == [o |-> TypeName(m.t), t |-> m.t, idlen |-> m.idlen, outer |-> m.outer, arity |-> m.arity, seq |-> m.seq, ip |-> m.ip,
          port |-> m.port, nd |-> m.nd, dist |-> m.dist, nrec |-> m.nrec, recq |-> m.recq, inner |-> m.inner, p1 |-> m.p1, p2 |-> m.p2,
          dev |-> SetToSeq(Devs(m)), vd |-> Verdict(m).err]
Reset == [o |-> "reset", seed |-> 0, k |-> 8]

Init == c \in Cases /\ hist = <<Reset, Op(c)>>
Next == UNCHANGED vars
Spec == Init /\ [][Next]_vars

C06Strict == DesignStrict(c)
C06Exact  == DesignExact(c)
C06Other  == DesignOther(c)
C06InnerListLength == DesignInnerListLength(c)
Emit == PrintT(<<"CASE", ToJson(Op(c))>>)
=============================================================================
