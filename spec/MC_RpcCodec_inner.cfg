SPECIFICATION Spec
INVARIANTS C06InnerListLength
CHECK_DEADLOCK FALSE
