SPECIFICATION Spec
CONSTANTS
  SIZES = {120, 129, 299, 300}
  MAXRECS = 7
  DEPTH = 0
INVARIANTS FitsInv AllSent
CHECK_DEADLOCK FALSE
