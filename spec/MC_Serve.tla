------------------------------ MODULE MC_Serve ------------------------------
(* Exhaustive check of the NODES splitting for every sequence of record sizes, and generation of *)
(* FINDNODE / PING behaviours for the real service (peer pool geometry of the harness).          *)
EXTENDS Serve, TLC, Json, SequencesExt
CONSTANTS SIZES, MAXRECS, DEPTH
VARIABLES phase, sizes, idlen, hist
vars == <<phase, sizes, idlen, hist>>
\* log2 distance of pool peer p<i> from the local node (vh geometry)
LD == <<254, 256, 256, 256, 256, 256, 255, 256, 256, 256, 253, 256, 256, 256, 256, 256, 254, 255, 254, 254, 256, 256, 256, 256, 256, 256, 256, 256, 255, 253, 256, 252, 254, 256, 256, 255, 256, 254, 256, 255>>
P(i) == "p" \o ToString(i)
\* ---- part 1 (exhaustive): all size sequences
\* simulation starts from an empty table or from one that holds every pool peer its buckets can take (more than one answer may carry)
FillOps == [i \in 1..40 |-> [o |-> "add_enr", rec |-> P(i) \o ":1:v4"]]
Init == /\ phase = "sizes" /\ sizes = <<>> /\ idlen = 0
        /\ hist \in {<<[o |-> "reset", mode |-> "ip4", maxnodes |-> 16]>>}
                     \cup (IF DEPTH > 0 THEN {<<[o |-> "reset", mode |-> "ip4", maxnodes |-> mx]>> \o FillOps : mx \in {16, 4}} ELSE {})   \* 4: the cap is reached in a bucket that is not the last one asked for
Grow == /\ phase = "sizes" /\ Len(sizes) < MAXRECS
        /\ \E s \in SIZES : sizes' = Append(sizes, s)
        /\ UNCHANGED <<phase, idlen, hist>>
SetId == /\ phase = "sizes" /\ \E k \in {0, 2, 8} : idlen' = k
         /\ UNCHANGED <<phase, sizes, hist>>
\* ---- part 2 (simulation): behaviours for the real service
Shapes2 == {"v4", "big"}
DsLists == {<<256>>, <<255, 256>>, <<0>>, <<256, 0, 256, 255>>, <<254, 253, 252>>, <<>>, <<257, 300, 0>>, <<256, 255, 254, 253, 252>>, <<1, 2, 3>>}
SimOps == {[o |-> "add_enr", rec |-> P(i) \o ":1:" \o s] : i \in 1..40, s \in Shapes2}
          \cup {[o |-> "request_in", peer |-> P(i), from |-> f, idlen |-> k, n |-> 7, body |-> [t |-> "findnode", ds |-> d]] : i \in {2, 9, 33}, f \in {"v4", "other"}, k \in {0, 1, 8}, d \in DsLists}
          \cup {[o |-> "request_in", peer |-> P(i), from |-> f, idlen |-> 2, n |-> 9, body |-> [t |-> "ping", seq |-> 1]] : i \in {3, 9}, f \in {"v4", "other", "v6", "lo6"}}
          \cup {[o |-> "established", rec |-> P(i) \o ":1:v4", dir |-> "Out"] : i \in 1..12}
Sim == /\ DEPTH > 0
       /\ \E k \in {RandomElement({x.o : x \in SimOps})} : \E op \in {RandomElement({x \in SimOps : x.o = k})} : hist' = Append(hist, op)
       /\ UNCHANGED <<phase, sizes, idlen>>
MCNext == IF DEPTH > 0 THEN Sim ELSE Grow \/ SetId
Spec == Init /\ [][MCNext]_vars
\* every packet produced for this size sequence fits a datagram, and all records are sent, in order
Recs == [i \in 1..Len(sizes) |-> [id |-> P(i), dist |-> 256, size |-> sizes[i]]]
Packets == Split(Recs, <<<<>>>>, 0)
FitsInv == \A i \in 1..Len(Packets) : WireSize(idlen, [j \in 1..Len(Packets[i]) |-> Packets[i][j].size]) <= MAXPACKET
AllSent == LET RECURSIVE Flat(_) Flat(q) == IF q = <<>> THEN <<>> ELSE Head(q) \o Flat(Tail(q)) IN Flat(Packets) = Recs
Base == IF Len(hist) >= 41 /\ SubSeq(hist, 2, 41) = FillOps THEN 40 ELSE 0
Emit == DEPTH = 0 \/ Len(hist) <= DEPTH + Base \/ PrintT(<<"REPLAY", ToJson(hist)>>)
=============================================================================
