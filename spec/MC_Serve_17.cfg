SPECIFICATION Spec
CONSTANTS
  SIZES = {129, 300}
  MAXRECS = 17
  DEPTH = 0
INVARIANTS FitsInv AllSent
CHECK_DEADLOCK FALSE
