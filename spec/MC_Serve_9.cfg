SPECIFICATION Spec
CONSTANTS
  SIZES = {120, 129, 299, 300}
  MAXRECS = 9
  DEPTH = 0
INVARIANTS FitsInv AllSent
CHECK_DEADLOCK FALSE
