SPECIFICATION Spec
CONSTANTS
  SIZES = {300}
  MAXRECS = 1
  DEPTH = 30
INVARIANTS Emit
CHECK_DEADLOCK FALSE
