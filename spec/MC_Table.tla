------------------------------ MODULE MC_Table ------------------------------
EXTENDS TablePolicy, Geometry, TLC, Json, SequencesExt, Sequences
CONSTANTS DEPTH
VARIABLES table, how, hist
vars == <<table, how, hist>>
Init == table = [i \in Ids |-> None] /\ how = [a |-> "init", r |-> None, fam |-> 0, dir |-> "-"] /\ hist = <<>>
Step(a, r, fam, dir, S) == /\ DEPTH = 0 /\ table' \in S /\ how' = [a |-> a, r |-> r, fam |-> fam, dir |-> dir] /\ UNCHANGED hist
MNext == \/ \E r \in Recs, c \in Ids \ {"local"}, fam \in {4, 6}, dir \in {"in", "out"} :
             /\ (dir = "in" => Verify(r, c, fam)) /\ (dir = "out" => r.id = c)
             /\ Step("est", r, fam, dir, Established(table, r, c, fam, dir))
         \/ \E r \in Recs : Step("disc", r, 0, "-", Discovered(table, r)) \/ Step("add", r, 0, "-", AddEnr(table, r))
         \/ \E i \in Ids : Step("rm", None, 0, "-", Remove(table, i)) \/ Step("unv", None, 0, "-", Unverifiable(table, i))
\* ---- C12 on the design
AdmitInv == \A i \in Ids : table[i] # None => table[i].id = i /\ i # "local" /\ Contactable(table[i]) /\ table[i].pass
OnlyBySession == [][\A i \in Ids : table[i] = None /\ table'[i] # None => how'.a \in {"est", "add"}]_vars
SingleStack == [][\A i \in Ids : MODE # "dual" /\ table'[i] # table[i] /\ table'[i] # None /\ how'.a = "est" /\ how'.dir = "in"
                     => (IF how'.fam = 4 THEN table'[i].v4 ELSE table'[i].v6) \in {"src"} \/ (MODE = "ip4" /\ how'.fam = 6) \/ (MODE = "ip6" /\ how'.fam = 4)]_vars
ReplaceRule == [][\A i \in Ids : how'.a = "disc" /\ table[i] # None /\ table'[i] # None /\ table'[i] # table[i]
                     => table'[i].id = i /\ table'[i].seq > table[i].seq /\ Contactable(table'[i]) /\ table'[i].pass]_vars
\* ---- behaviours for the real service (simulation): records "<peer>:<seq>:<shape>" of the harness pool
P(i) == "p" \o ToString(i)
ShapesG == {"v4", "v6", "both", "none", "map", "mis", "mark"}
Rnd(S) == RandomElement(S)
\* (a dummy parameter keeps TLC from caching these as constants: every use must draw afresh)
RecG(z) == P(Rnd(1..8)) \o ":" \o ToString(Rnd(1..3)) \o ":" \o Rnd(ShapesG)
SimOps(z) == {[o |-> "established", rec |-> RecG(z), from |-> Rnd({"v4", "v4", "v6", "other"}), dir |-> Rnd({"In", "Out"})],
           [o |-> "add_enr", rec |-> RecG(z)],
           [o |-> "lookup", target |-> [xor |-> <<P(Rnd(1..8)), Rnd({255, 254, 200})>>]],
           [o |-> "response_in", req |-> "@" \o P(Rnd(1..8)), body |-> [t |-> "nodes", total |-> 1, recs |-> <<RecG(z), RecG(z + 1)>>]],
           [o |-> "response_in", req |-> "@" \o P(Rnd(1..8)), body |-> [t |-> "pong", seq |-> Rnd({1, 3}), sock |-> "L4"]],
           [o |-> "fail", req |-> "@" \o P(Rnd(1..8))],
           [o |-> "unverifiable", rec |-> RecG(z), id |-> P(Rnd(1..8)), from |-> "other"],
           [o |-> "request_in", peer |-> P(Rnd(1..8)), n |-> 3, body |-> [t |-> "ping", seq |-> Rnd({1, 3})]]}
Sim == /\ DEPTH > 0 /\ UNCHANGED <<table, how>>
       /\ IF hist = <<>> THEN hist' = <<[o |-> "reset", mode |-> MODE, filter |-> "nomark"]>>
          ELSE hist' = Append(hist, Rnd(SimOps(Len(hist))))
MCNext == IF DEPTH > 0 THEN Sim ELSE MNext
Spec == Init /\ [][MCNext]_vars
View == table
Emit == DEPTH = 0 \/ Len(hist) <= DEPTH \/ PrintT(<<"REPLAY", ToJson(hist)>>)
=============================================================================
