SPECIFICATION Spec
CONSTANTS
  MODE = "dual"
  DEPTH = 0
INVARIANT AdmitInv
VIEW View
PROPERTIES OnlyBySession SingleStack ReplaceRule
CHECK_DEADLOCK FALSE
