SPECIFICATION Spec
CONSTANTS
  MODE = "ip6"
  DEPTH = 0
INVARIANT AdmitInv
VIEW View
PROPERTIES OnlyBySession SingleStack ReplaceRule
CHECK_DEADLOCK FALSE
