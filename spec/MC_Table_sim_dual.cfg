SPECIFICATION Spec
CONSTANTS
  MODE = "dual"
  DEPTH = 30
INVARIANT Emit
CHECK_DEADLOCK FALSE
