SPECIFICATION Spec
CONSTANTS
  MODE = "ip4"
  DEPTH = 30
INVARIANT Emit
CHECK_DEADLOCK FALSE
