SPECIFICATION Spec
CONSTANTS
  MODE = "ip6"
  DEPTH = 30
INVARIANT Emit
CHECK_DEADLOCK FALSE
