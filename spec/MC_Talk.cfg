SPECIFICATION Spec
CONSTANTS
  MAXREQ = 3
  DEPTH = 0
INVARIANTS OnceInv ExactInv HeldSilent
VIEW View
CHECK_DEADLOCK FALSE
