------------------------------ MODULE MC_Talk ------------------------------
EXTENDS Talk, TLC, Json, SequencesExt
CONSTANTS MAXREQ, DEPTH
VARIABLES t, resp, consumed, hist, res
vars == <<t, resp, consumed, hist, res>>
Reset == [o |-> "reset", mode |-> "ip4", filter |-> "all"]
\* p1 is known to the node (its record, advertising p1.v4, is in the routing table), p4 is a stranger; either may send from its
\* advertised socket or from another one ("other": NAT rebinding, stale record)
Known == [o |-> "add_enr", rec |-> "p1:1:v4"]
Init == t = T0 /\ resp = <<>> /\ consumed = <<>> /\ hist = <<Reset, Known>> /\ res = [t |-> T0, ret |-> "ok", out |-> <<>>]
Ops == (IF t.n < MAXREQ THEN {[o |-> "request_in", peer |-> p, from |-> f, n |-> t.n + 1, body |-> [t |-> "talk"]] : p \in {"p1", "p4"}, f \in {"v4", "other"}} ELSE {})
       \cup {[o |-> "talk_respond", tr |-> k] : k \in t.held} \cup {[o |-> "talk_respond", tr |-> k, empty |-> TRUE] : k \in t.held}
       \cup {[o |-> "talk_drop", tr |-> k] : k \in t.held} \cup {[o |-> "talk_drop", tr |-> k, unwind |-> TRUE] : k \in t.held}
       \cup (IF t.running THEN {[o |-> "shutdown"]} ELSE {})
       \cup (IF t.held # {} /\ DEPTH > 0 THEN {[o |-> "advance", ms |-> 25000]} ELSE {})     \* the application takes its time (longer than any request time-out)
Do(op) == /\ res' = TStep(t, op) /\ t' = res'.t
          /\ resp' = resp \o res'.out
          /\ consumed' = IF op.o \in {"talk_respond", "talk_drop"} THEN Append(consumed, [tr |-> op.tr, how |-> op.o, running |-> t.running]) ELSE consumed
          /\ hist' = Append(hist, op)
MCNext == IF DEPTH > 0 THEN Ops # {} /\ \E op \in {RandomElement(Ops)} : Do(op) ELSE \E op \in Ops : Do(op)
Spec == Init /\ [][MCNext]_vars
View == <<t, resp, consumed>>
\* C20 on the design
Count(k) == Cardinality({i \in 1..Len(resp) : resp[i][1] = k})
OnceInv == \A k \in 1..t.n : Count(k) <= 1
ExactInv == \A i \in 1..Len(consumed) : consumed[i].running =>
               \E j \in 1..Len(resp) : resp[j][1] = consumed[i].tr /\ (consumed[i].how = "talk_drop" => resp[j][2] = "empty")
HeldSilent == \A k \in t.held : Count(k) = 0
Emit == DEPTH = 0 \/ Len(hist) <= DEPTH \/ PrintT(<<"REPLAY", ToJson(hist)>>)
GoalDropAfterShutdown == ~(~t.running /\ \E i \in 1..Len(consumed) : ~consumed[i].running /\ consumed[i].how = "talk_drop")
GoalRespondAfterShutdown == ~(~t.running /\ \E i \in 1..Len(consumed) : ~consumed[i].running /\ consumed[i].how = "talk_respond")
=============================================================================
