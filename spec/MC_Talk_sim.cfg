SPECIFICATION Spec
CONSTANTS
  MAXREQ = 6
  DEPTH = 14
INVARIANTS Emit
CHECK_DEADLOCK FALSE
