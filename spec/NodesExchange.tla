--------------------------- MODULE NodesExchange ---------------------------
(* FINDNODE / NODES exchange of a lookup: src/service/query_info.rs (findnode_log2distance),      *)
(* src/service.rs (handle_rpc_response for NODES: distance filter, banning, multi-packet           *)
(* counting; send_nodes_response as the honest responder) - decides C11 on the design.            *)
(* A returned record is abstracted to its log2 distance from the responder: 1..256, 0 = the          *)
(* responder's own record, "L" = the requester's own record (any distance).                         *)
EXTENDS Integers, Sequences, FiniteSets
MAXRESP == 15                       \* MAX_NODES_RESPONSES

\* fn findnode_log2distance(target, peer, size) for log2(peer, target) = d (d = 0: target = peer => [0])
RECURSIVE Grow(_, _, _, _)
Grow(d, list, diff, size) ==
  IF Len(list) >= size THEN list
  ELSE LET l1 == IF d + diff <= 256 THEN Append(list, d + diff) ELSE list
           l2 == IF Len(l1) < size /\ d - diff >= 0 THEN Append(l1, d - diff) ELSE l1
       IN Grow(d, l2, diff + 1, size)
ReqDistances(d, size) == IF d = 0 THEN <<0>> ELSE Grow(d, <<d>>, 1, size)
InList(x, q) == \E i \in 1..Len(q) : q[i] = x

\* A returned record is [d, self, n]: d = its log2 distance from the responder (0 = the responder's own record),
\* self = it is the requester's own record, n = a name (opaque).
\* The distance filter of handle_rpc_response (`fix: C11`: the responder's own record counts as distance 0, also in the
\* [0]-only request). A record of the requester itself passes the filter like any other and is dropped later (discovered).
Keep(recs, ds) == SelectSeq(recs, LAMBDA r : InList(r.d, ds))
\* state of one request: [ds, count (NodesResponse.count, 0 = no entry), got (received_nodes), done, banned, out]
X0(ds) == [ds |-> ds, count |-> 0, got |-> <<>>, done |-> FALSE, banned |-> FALSE, out |-> <<>>, fin |-> FALSE]
\* one NODES packet [total, recs]; maxn = config.max_nodes_response.  `fin` = this packet completed the request.
HandleNodes(x, pk, maxn) ==
  IF x.done THEN [x EXCEPT !.out = <<>>, !.fin = FALSE]
  ELSE LET kept == Keep(pk.recs, x.ds)
           enrUpd == Len(x.ds) = 1 /\ x.ds[1] = 0
           ban == Len(kept) < Len(pk.recs) \/ (enrUpd /\ Len(pk.recs) > 1)
           x1 == [x EXCEPT !.banned = @ \/ ban]
       IN IF pk.total > 1
          THEN LET cnt == IF x.count = 0 THEN 1 ELSE x.count IN
               IF Len(x.got) < maxn /\ cnt < pk.total /\ cnt < MAXRESP
               THEN [x1 EXCEPT !.count = cnt + 1, !.got = @ \o kept, !.out = <<>>, !.fin = FALSE]
               ELSE [x1 EXCEPT !.done = TRUE, !.out = x.got \o kept, !.got = <<>>, !.count = 0, !.fin = TRUE]
          ELSE [x1 EXCEPT !.done = TRUE, !.out = kept, !.got = <<>>, !.count = 0, !.fin = TRUE]
\* what reaches `discovered` and is reported: everything kept except the requester's own record
Reported(out) == SelectSeq(out, LAMBDA r : ~r.self)

\* the honest responder (send_nodes_response): own record iff 0 requested, then its table entries at the requested distances
HonestRecs(tableDists, ds) == (IF InList(0, ds) THEN <<[d |-> 0, self |-> FALSE, n |-> "own"]>> ELSE <<>>)
   \o [i \in 1..Len(SelectSeq(tableDists, LAMBDA d : d # 0 /\ InList(d, ds))) |-> [d |-> SelectSeq(tableDists, LAMBDA d : d # 0 /\ InList(d, ds))[i], self |-> FALSE, n |-> "t"]]
=============================================================================
