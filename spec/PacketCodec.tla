---------------------------- MODULE PacketCodec ----------------------------
(* Decision structure of `Packet::decode` / `PacketKind::decode` (src/packet/mod.rs) over ABSTRACT   *)
(* datagrams, and the rejections / acceptances that property C05 requires.                            *)
(*                                                                                                   *)
(* An abstract datagram is a *recipe*: the layout the sender built (`shape`, and for a handshake the  *)
(* signature / key sizes and what follows the key), and the places where it departs from a            *)
(* well-formed discv5.1 datagram.  The harness (harness/src/codec/packet.rs) turns a recipe into      *)
(* bytes with its own encoder; k seeded variants per recipe choose the concrete values of a class.    *)
(*                                                                                                   *)
(*   shape : "msg" | "way" | "hs"     auth-data built as  src-id(32) | id-nonce(16)||enr-seq(8)       *)
(*                                    | src-id(32)||sig-size||key-size||sig||key||[record]            *)
(*   flag  : 0 | 1 | 2 | 3            the kind byte written (3 stands for every value 3..255)         *)
(*   sig, key : sizes of the id-signature and the ephemeral key (handshake only); 999 stands for any   *)
(*           size 1..254, chosen per variant                                                           *)
(*   rec   : what follows the key:  "none" | "valid" (a signed record) | "garbage" (bytes that are    *)
(*           no record) | "trail" (a valid record and then extra bytes, <= 300 in all) | "big" (same, *)
(*           > 300 in all) | "trunc" (a valid record without its last bytes)                          *)
(*   asz   : the auth-data-size field:  "exact" | "plus" (n >= 1 more bytes of auth-data, field       *)
(*           raised) | "minus" (field lowered by n >= 1: the tail of the auth-data becomes body)      *)
(*           | "beyond" (field larger than what follows the static header)                            *)
(*   body  : bytes after the auth-data: "empty" | "one" | "mid" | "max" (datagram exactly 1280 bytes) *)
(*           | "over" (datagram 1281..1400 bytes)                                                     *)
(*   cut   : truncation of the finished datagram: "none" | "lt63" (0..62 bytes are left) | "inauth"   *)
(*           (>= 63 bytes are left, the cut falls inside the auth-data)                               *)
(*   mask  : header masked with the first 16 bytes of "us" (the decoding node) or of an "other" id    *)
(*           (one that differs in those 16 bytes: the masking key is dest-id[..16] by the wire spec)  *)
(*   proto, ver : "ok" | "bad"        protocol id "discv5" / version 0x0001, or something else        *)
EXTENDS Integers, FiniteSets, Sequences

KindOf(shape) == CASE shape = "msg" -> 0 [] shape = "way" -> 1 [] shape = "hs" -> 2

Recs   == {"none", "valid", "garbage", "trail", "big", "trunc"}
Aszs   == {"exact", "plus", "minus", "beyond"}
Bodies == {"empty", "one", "mid", "max", "over"}
Cuts   == {"none", "lt63", "inauth"}
AnySize == 999

\* recipes that can be built and whose classes decide the outcome (no accidental second meaning)
Consistent(d) ==
  /\ (d.shape # "hs" => d.sig = 0 /\ d.key = 0 /\ d.rec = "none")
  /\ (d.flag # KindOf(d.shape) => d.asz = "exact" /\ d.cut = "none")     \* a foreign kind byte sees sizes 32 / 24 / >= 34
  /\ (d.shape = "hs" => d.asz # "plus")                                  \* = rec "garbage" / "trail"
  /\ (d.rec # "none" => d.asz \in {"exact", "beyond"})                   \* lowering the field into a record = rec "trunc"
  /\ (d.asz # "exact" => d.body \in {"empty", "mid"})
  /\ (d.cut # "none" => d.body \in {"empty", "mid"} /\ d.asz = "exact")
  /\ (d.cut = "inauth" => d.shape # "way")                               \* 39 + 24 = 63: nothing to cut inside
  /\ (d.mask = "other" => d.proto = "ok" /\ d.ver = "ok")                \* the unmasked header is noise anyway

CasesOf(shape) ==
  {d \in [shape : {shape}, flag : 0..3,
          sig : IF shape = "hs" THEN {0, 64, 255, AnySize} ELSE {0}, key : IF shape = "hs" THEN {0, 33, 255, AnySize} ELSE {0},
          rec : IF shape = "hs" THEN Recs ELSE {"none"},
          asz : Aszs, body : Bodies, cut : Cuts, mask : {"us", "other"}, proto : {"ok", "bad"}, ver : {"ok", "bad"}] : Consistent(d)}
Cases == CasesOf("msg") \cup CasesOf("way") \cup CasesOf("hs")

\* --------------------------------------------------------------------------- what the code does
Rej(e) == [acc |-> FALSE, err |-> e, kind |-> "none", rec |-> "none"]
Acc(k, r) == [acc |-> TRUE, err |-> "none", kind |-> k, rec |-> r]

\* data.len() > MAX_PACKET_SIZE / data.len() < MIN_PACKET_SIZE
TooLarge(d) == d.cut = "none" /\ d.body = "over"
TooSmall(d) == d.cut = "lt63"
\* static_header[..6] != protocol_id: a header masked with another key unmasks to noise
ProtoMismatch(d) == d.mask = "other" \/ d.proto = "bad"
VersionMismatch(d) == d.ver = "bad"
\* auth_data_size as usize > remaining_data.len()
SizeBeyondData(d) == d.asz = "beyond" \/ d.cut = "inauth"
\* auth_data.len() as PacketKind::decode sees it, against the constants it is compared with
AuthLenIs(d, n) == d.asz = "exact" /\ ((n = 32 /\ d.shape = "msg") \/ (n = 24 /\ d.shape = "way"))
\* auth_data.len() < 34  \/  auth_data.len() < 34 + sig_size + eph_key_size   (a handshake layout is the only one >= 34;
\* lowering the field of a record-less handshake always drops below 34 + sizes)
AuthLenBelowHandshake(d) == d.shape # "hs" \/ d.asz = "minus"

\* fn PacketKind::decode(kind, auth_data)
KindDecode(d) ==
  CASE d.flag = 0 -> IF AuthLenIs(d, 32) THEN Acc("msg", "none") ELSE Rej("InvalidAuthDataSize")
    [] d.flag = 1 -> IF AuthLenIs(d, 24) THEN Acc("way", "none") ELSE Rej("InvalidAuthDataSize")
    [] d.flag = 2 -> IF AuthLenBelowHandshake(d) THEN Rej("InvalidAuthDataSize")
                     \* remaining_data.len() > total_size => <Enr>::decode(rest): the rest must start with a valid signed record and
                     \* be at most 300 bytes (the record decoder's own size guard looks at the whole rest); bytes after the record's
                     \* list are ignored
                     ELSE CASE d.rec = "none"  -> Acc("hs", "none")
                            [] d.rec = "valid" -> Acc("hs", "valid")
                            [] d.rec = "trail" -> Acc("hs", "valid")
                            [] OTHER           -> Rej("InvalidEnr")
    [] OTHER -> Rej("UnknownPacket")

\* fn Packet::decode(src_id, protocol_identity, data): the checks in the code's order
Verdict(d) ==
  IF TooLarge(d) THEN Rej("TooLarge")
  ELSE IF TooSmall(d) THEN Rej("TooSmall")
  ELSE IF ProtoMismatch(d) THEN Rej("HeaderDecryptionFailed")
  ELSE IF VersionMismatch(d) THEN Rej("InvalidVersion")
  ELSE IF SizeBeyondData(d) THEN Rej("InvalidAuthDataSize")
  ELSE LET k == KindDecode(d) IN
       IF ~k.acc THEN k
       \* !message.is_empty() && header.kind.is_whoareyou()
       ELSE IF k.kind = "way" /\ d.body # "empty" THEN Rej("UnknownPacket")
       ELSE k

\* --------------------------------------------------------------------------- what C05 demands
\* the rejections the statement lists, by clause (formula names of the monitor are "C05." \o clause)
Required(d) ==
     (IF d.cut = "lt63" THEN {"TooShort"} ELSE {})
  \cup (IF d.cut = "none" /\ d.body = "over" THEN {"TooLong"} ELSE {})
  \cup (IF d.mask = "other" THEN {"OtherId"} ELSE {})
  \cup (IF d.proto = "bad" THEN {"ProtocolId"} ELSE {})
  \cup (IF d.ver = "bad" THEN {"Version"} ELSE {})
  \cup (IF d.flag = 3 THEN {"Kind"} ELSE {})
  \* sizes inconsistent with the datagram: beyond its end; not the size of the kind (32 / 24); below what the handshake's own
  \* signature and key sizes need
  \cup (IF d.asz # "exact" \/ d.cut = "inauth" \/ (d.flag \in 0..2 /\ d.flag # KindOf(d.shape)) THEN {"AuthSize"} ELSE {})
  \cup (IF d.flag = 1 /\ d.shape = "way" /\ d.body # "empty" THEN {"WhoAreYouBody"} ELSE {})
\* well-formed: the encoding of a packet of one of the three kinds for this node; must decode to exactly that packet
WellFormed(d) ==
  /\ d.flag = KindOf(d.shape) /\ d.rec \in {"none", "valid"} /\ d.asz = "exact" /\ d.cut = "none"
  /\ d.mask = "us" /\ d.proto = "ok" /\ d.ver = "ok"
  /\ d.body \in (IF d.shape = "way" THEN {"empty"} ELSE {"empty", "one", "mid", "max"})
\* everything else (a handshake whose auth-data continues with bytes that are no record, or with bytes after a valid record)
\* is not constrained by C05: only totality and the round trip of whatever is accepted
Unconstrained(d) == Required(d) = {} /\ ~WellFormed(d)
\* all departures from well-formedness (labels; used to stratify the cases that are replayed)
Devs(d) == Required(d) \cup (IF d.rec \in {"garbage", "trail", "big", "trunc"} THEN {"Rec:" \o d.rec} ELSE {})

\* the design obligations (checked by TLC over all of Cases)
DesignStrict(d) == Required(d) # {} => ~Verdict(d).acc
DesignExact(d)  == WellFormed(d) => (Verdict(d).acc /\ Verdict(d).kind = d.shape /\ Verdict(d).rec = d.rec)
DesignPartition(d) == (WellFormed(d) => Required(d) = {}) /\ (Devs(d) = {} <=> WellFormed(d))
=============================================================================
