------------------------------- MODULE Query -------------------------------
(* Specification of the iterative lookup state machines: src/query_pool/peers/closest.rs       *)
(* (FindNodeQuery) and predicate.rs (PredicateQuery) - one module, flag cfg.pred.              *)
(* A peer is an integer = its XOR distance to the target (the harness uses the all-zero target  *)
(* so that the node id, read as a number, is the distance).                                     *)
(* State q = [ps : sequence of [p, st, dl, m] sorted by p  (the BTreeMap),  nw, prog, np, cfg]  *)
(*   st \in {"NotContacted","Waiting","Unresponsive","Failed","Succeeded"}, dl = deadline of a   *)
(*   waiting peer, m = predicate_match;  prog \in {"Iterating","Stalled","Finished"}.            *)
(* Every call of the code is a case of QStep(q, op, now) = [q, ret].                             *)
EXTENDS Integers, Sequences, FiniteSets

PIdx(ps, p) == IF \E i \in 1..Len(ps) : ps[i].p = p THEN CHOOSE i \in 1..Len(ps) : ps[i].p = p ELSE 0
\* BTreeMap::entry(distance).or_insert: insert at the sorted position unless present
InsertSorted(ps, e) ==
  IF PIdx(ps, e.p) # 0 THEN ps
  ELSE LET k == Cardinality({i \in 1..Len(ps) : ps[i].p < e.p}) IN SubSeq(ps, 1, k) \o <<e>> \o SubSeq(ps, k + 1, Len(ps))
RECURSIVE InsertAll(_, _)
InsertAll(ps, es) == IF es = <<>> THEN ps ELSE InsertAll(InsertSorted(ps, Head(es)), Tail(es))
Peer(x) == [p |-> x[1], st |-> "NotContacted", dl |-> 0, m |-> x[2]]

\* with_config: the first num_results of the given candidates (in the given order)
New(cfg, cands) ==
  LET n == IF Len(cands) < cfg.nr THEN Len(cands) ELSE cfg.nr IN
  [ps |-> InsertAll(<<>>, [i \in 1..n |-> Peer(cands[i])]), nw |-> 0, prog |-> "Iterating", np |-> 0, cfg |-> cfg]

AtCapacity(q) == CASE q.prog = "Stalled" -> q.nw >= q.cfg.nr
                   [] q.prog = "Iterating" -> q.nw >= q.cfg.par
                   [] OTHER -> TRUE

\* on_success(peer, closer_peers)
RECURSIVE Incorporate(_, _, _, _)
Incorporate(ps, news, numClosest, cfg) ==      \* returns [ps, progress]; `progress` is decided by the last reported peer
  IF news = <<>> THEN [ps |-> ps, progress |-> FALSE]
  ELSE LET ps1 == InsertSorted(ps, Peer(Head(news)))
           r   == Incorporate(ps1, Tail(news), numClosest, cfg) IN
       IF Tail(news) = <<>> THEN [ps |-> ps1, progress |-> (ps1[1].p = Head(news)[1]) \/ numClosest < cfg.nr]
       ELSE r
OnSuccess(q, p, news) ==
  LET i == PIdx(q.ps, p) IN
  IF q.prog = "Finished" \/ i = 0 \/ q.ps[i].st \notin {"Waiting", "Unresponsive"} THEN q
  ELSE LET q1 == [q EXCEPT !.nw = IF q.ps[i].st = "Waiting" THEN @ - 1 ELSE @, !.ps[i].st = "Succeeded"]
           r  == Incorporate(q1.ps, news, Len(q1.ps), q.cfg)
           prog2 == CASE q.prog = "Iterating" -> (IF (IF r.progress THEN 0 ELSE q.np + 1) >= q.cfg.par THEN "Stalled" ELSE "Iterating")
                      [] q.prog = "Stalled" -> (IF r.progress THEN "Iterating" ELSE "Stalled")
                      [] OTHER -> q.prog
           np2 == IF q.prog = "Iterating" /\ prog2 = "Iterating" THEN (IF r.progress THEN 0 ELSE q.np + 1) ELSE 0
       IN [q1 EXCEPT !.ps = r.ps, !.prog = prog2, !.np = np2]
\* on_failure(peer): the plain variant also fails an unresponsive peer, the predicate variant only a waiting one
OnFailure(q, p) ==
  LET i == PIdx(q.ps, p) IN
  IF q.prog = "Finished" \/ i = 0 THEN q
  ELSE IF q.ps[i].st = "Waiting" THEN [q EXCEPT !.nw = @ - 1, !.ps[i].st = "Failed"]
  ELSE IF q.ps[i].st = "Unresponsive" /\ ~q.cfg.pred THEN [q EXCEPT !.ps[i].st = "Failed"]
  ELSE q

\* next(now): the loop over the peers in distance order; acc = [q, rc (-1 = None), ret]
Counts(q, e) == ~q.cfg.pred \/ e.m
RECURSIVE Loop(_, _, _, _)
Loop(acc, i, atcap, now) ==
  IF i > Len(acc.q.ps) \/ acc.ret # "" THEN acc
  ELSE LET e == acc.q.ps[i] IN
    CASE e.st = "NotContacted" ->
           IF ~atcap THEN [acc EXCEPT !.q.ps[i].st = "Waiting", !.q.ps[i].dl = now + acc.q.cfg.pto, !.q.nw = @ + 1, !.ret = "contact", !.peer = e.p]
           ELSE [acc EXCEPT !.ret = "WaitingAtCapacity"]
      [] e.st = "Waiting" ->
           IF now >= e.dl THEN Loop([acc EXCEPT !.q.ps[i].st = "Unresponsive", !.q.nw = @ - 1], i + 1, atcap, now)
           ELSE IF atcap THEN [acc EXCEPT !.ret = "WaitingAtCapacity"]
           ELSE Loop(IF Counts(acc.q, e) THEN [acc EXCEPT !.rc = -1] ELSE acc, i + 1, atcap, now)
      [] e.st = "Succeeded" ->
           IF acc.rc # -1 /\ Counts(acc.q, e)
           THEN (IF acc.rc + 1 >= acc.q.cfg.nr THEN [acc EXCEPT !.q.prog = "Finished", !.ret = "Finished"]
                 ELSE Loop([acc EXCEPT !.rc = @ + 1], i + 1, atcap, now))
           ELSE Loop(acc, i + 1, atcap, now)
      [] OTHER -> Loop(acc, i + 1, atcap, now)
QNext(q, now) ==
  IF q.prog = "Finished" THEN [q |-> q, ret |-> "Finished", peer |-> 0]
  ELSE LET r == Loop([q |-> q, rc |-> 0, ret |-> "", peer |-> 0], 1, AtCapacity(q), now) IN
       IF r.ret # "" THEN [q |-> r.q, ret |-> r.ret, peer |-> r.peer]
       ELSE IF r.q.nw > 0 THEN [q |-> r.q, ret |-> "Waiting", peer |-> 0]
       ELSE [q |-> [r.q EXCEPT !.prog = "Finished"], ret |-> "Finished", peer |-> 0]

\* into_result: succeeded (and matching) peers in distance order, at most num_results
RECURSIVE TakeSucc(_, _, _)
TakeSucc(q, i, acc) == IF i > Len(q.ps) \/ Len(acc) >= q.cfg.nr THEN acc
                       ELSE TakeSucc(q, i + 1, IF q.ps[i].st = "Succeeded" /\ Counts(q, q.ps[i]) THEN Append(acc, q.ps[i].p) ELSE acc)
Result(q) == TakeSucc(q, 1, <<>>)

QStep(q, op, now) ==
  CASE op.o = "next"       -> LET r == QNext(q, now) IN [q |-> r.q, ret |-> IF r.ret = "contact" THEN <<"contact", r.peer>> ELSE <<r.ret, 0>>]
    [] op.o = "on_success" -> [q |-> OnSuccess(q, op.p, op.news), ret |-> <<"ok", 0>>]
    [] op.o = "on_failure" -> [q |-> OnFailure(q, op.p), ret |-> <<"ok", 0>>]
    [] op.o = "tick"       -> [q |-> q, ret |-> <<"ok", 0>>]

\* ------------------------------------------------------------------ design-level property formulas
Waiting(q) == {i \in 1..Len(q.ps) : q.ps[i].st = "Waiting"}
NwInv(q) == q.nw = Cardinality(Waiting(q))
CapInv(q, everStalled) == q.nw <= q.cfg.par \/ (everStalled /\ q.nw <= q.cfg.nr)
Sorted(r) == \A i \in 1..(Len(r) - 1) : r[i] < r[i + 1]
=============================================================================
