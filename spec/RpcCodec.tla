----------------------------- MODULE RpcCodec -----------------------------
(* Decision structure of `Message::decode` (src/rpc.rs) over ABSTRACT messages, and the rejections / *)
(* acceptances that property C06 requires.                                                           *)
(*                                                                                                   *)
(* An abstract message is a recipe  type-byte || rlp-list[ id, fields... ]  with validity classes;    *)
(* the harness (harness/src/codec/rpc.rs) builds the bytes with its own RLP encoder, k seeded         *)
(* variants per recipe.                                                                               *)
(*   t     : 0..7     message type byte (1 PING, 2 PONG, 3 FINDNODE, 4 NODES, 5 TALKREQ, 6 TALKRESP;  *)
(*                    0 and 7 are unknown types, 7 stands for every value 7..255)                     *)
(*   idlen : 0..9     length of the request id (9 stands for 9..16)                                   *)
(*   outer : the outer list header / the end of the input                                             *)
(*           "exact" | "short" (the last n >= 1 bytes of the input are missing, >= 3 bytes are left)  *)
(*           | "tiny" (only the first 0..2 bytes) | "over" (header declares n more bytes than follow) *)
(*           | "trail" (n >= 1 bytes after the list) | "under" (header declares n fewer bytes than    *)
(*           the list has) | "str" (a string header of the same length instead of a list header)      *)
(*   arity : "exact" | "missing" (the last field of the list is left out) | "extra" (one more string  *)
(*           item at the end of the list) | "empty" (an empty list, not even an id)                   *)
(*   seq   : PING/PONG enr-seq, NODES total: "zero" | "small" | "max" (2^64-1) | "over" (9 bytes)     *)
(*           | "lead" (non-canonical: leading zero byte / single byte with a length prefix)           *)
(*   ip    : PONG "v4" | "v6" (neither mapped nor compatible) | "mapped" (::ffff:a.b.c.d) | "compat"  *)
(*           (::a.b.c.d, a > 0) | "loop" (::1) | "badlen" (a byte string of another length)           *)
(*   port  : PONG "zero" | "one" (1 and other non-zero values) | "max" (65535) | "over" (3 bytes)     *)
(*   nd, dist : FINDNODE number of distances; "le256" (0 and 256 among them) | "gt256" (one of them   *)
(*           is 257 .. 2^64-1) | "over" (one of them has 9 bytes)                                     *)
(*   nrec, recq, inner : NODES number of records; "valid" | "badsig" (one record's signature or       *)
(*           content altered) | "trunc" (one record cut short, its list header adjusted) | "str" (a   *)
(*           byte string in the place of one record);  inner list header "exact" | "short" (covers    *)
(*           only the first j < nrec records, the others follow it inside the outer list) | "long"    *)
(*           (declares n more bytes than follow) | "str" (a string header)                            *)
(*   p1, p2 : TALKREQ protocol / request, TALKRESP response (p1): "empty" | "byte" (one byte < 0x80,  *)
(*           encoded as itself) | "small" (1..55 bytes) | "long" (>= 56 bytes, long-form header)      *)
EXTENDS Integers, FiniteSets, Sequences

Outers  == {"exact", "short", "tiny", "over", "trail", "under", "str"}
Arities == {"exact", "missing", "extra", "empty"}
Seqs    == {"zero", "small", "max", "over", "lead"}
Ips     == {"v4", "v6", "mapped", "compat", "loop", "badlen"}
Ports   == {"zero", "one", "max", "over"}
Dists   == {"le256", "gt256", "over"}
Recqs   == {"valid", "badsig", "trunc", "str"}
Inners  == {"exact", "short", "long", "str"}
Pays    == {"empty", "byte", "small", "long"}
NA      == {"na"}

TypeName(t) == CASE t = 1 -> "ping" [] t = 2 -> "pong" [] t = 3 -> "findnode" [] t = 4 -> "nodes"
                 [] t = 5 -> "talkreq" [] t = 6 -> "talkresp" [] OTHER -> "unknown"

Consistent(m) ==
  /\ (m.outer # "exact" => m.arity = "exact")
  /\ ((m.outer # "exact" \/ m.arity # "exact") => m.idlen \in {8, 9})
  /\ (m.arity = "empty" => m.idlen = 8)
  /\ (m.t = 3 /\ m.nd = 0 => m.dist = "le256")
  /\ (m.t = 4 /\ m.nrec = 0 => m.recq = "valid" /\ m.inner # "short")

CasesOf(t) ==
  {m \in [t : {t}, idlen : 0..9, outer : Outers, arity : Arities,
          seq   : IF t \in {1, 2, 4} THEN Seqs ELSE NA,
          ip    : IF t = 2 THEN Ips ELSE NA,   port : IF t = 2 THEN Ports ELSE NA,
          nd    : IF t = 3 THEN {0, 1, 2, 16} ELSE {0},   dist : IF t = 3 THEN Dists ELSE NA,
          nrec  : IF t = 4 THEN {0, 1, 2, 4} ELSE {0},    recq : IF t = 4 THEN Recqs ELSE NA,   inner : IF t = 4 THEN Inners ELSE NA,
          p1    : IF t \in {5, 6} THEN Pays ELSE NA,      p2 : IF t = 5 THEN Pays ELSE NA] : Consistent(m)}
Cases == UNION {CasesOf(t) : t \in 0..7}

\* --------------------------------------------------------------------------- what the code does
Rej(e) == [acc |-> FALSE, err |-> e]
Acc    == [acc |-> TRUE, err |-> "none"]

\* u64::decode / u16::decode (alloy-rlp): more bytes than the type has => Overflow; leading zero / non-canonical => error
IntErr(c) == CASE c = "over" -> "Overflow" [] c = "lead" -> "NonCanonical" [] OTHER -> "none"
\* the tail of every arm: a field that is not there => InputTooShort, `if !payload.is_empty()` => "Payload should be empty"
ListEnd(m) == CASE m.arity = "missing" -> Rej("InputTooShort") [] m.arity = "extra" -> Rej("Payload should be empty") [] OTHER -> Acc

Ping(m) == IF IntErr(m.seq) # "none" THEN Rej(IntErr(m.seq)) ELSE ListEnd(m)
Pong(m) ==
  IF IntErr(m.seq) # "none" THEN Rej(IntErr(m.seq))
  \* match ip_bytes.len() { 4 => .., 16 => (loopback stays V6, mapped / compatible become V4), _ => Err }
  ELSE IF m.ip = "badlen" THEN Rej("Incorrect List Length")
  ELSE IF m.arity = "missing" THEN Rej("InputTooShort")
  ELSE IF m.port = "over" THEN Rej("Overflow")
  ELSE IF m.port = "zero" THEN Rej("PONG response port number invalid")
  ELSE ListEnd(m)
FindNode(m) ==
  IF m.arity = "missing" THEN Rej("InputTooShort")
  ELSE IF m.dist = "over" THEN Rej("Overflow")
  ELSE IF m.dist = "gt256" THEN Rej("FINDNODE request distance invalid")
  ELSE ListEnd(m)
\* the inner list header is decoded (must be a list that fits) and must cover exactly the rest of the payload (the record list is
\* the last field) -- on the pinned tree its length was not used and records were parsed until the OUTER payload was empty, so
\* records that followed the inner list (inner = "short") were taken as further records of the response (F10, repaired)
Nodes(m) ==
  IF IntErr(m.seq) # "none" THEN Rej(IntErr(m.seq))
  ELSE IF m.arity = "missing" THEN Rej("InputTooShort")
  ELSE IF m.inner = "long" THEN Rej("InputTooShort")
  ELSE IF m.inner = "str" THEN Rej("Invalid format of header")
  ELSE IF m.inner = "short" \/ m.arity = "extra" THEN Rej("Invalid length of the records list")
  ELSE IF m.nrec > 0 /\ m.recq # "valid" THEN Rej("record")
  ELSE Acc
Talk(m) == ListEnd(m)

\* fn Message::decode(data): the checks in the code's order
Verdict(m) ==
  IF m.outer = "tiny" THEN Rej("InputTooShort")                                   \* data.len() < 3
  ELSE IF m.outer \in {"short", "over"} THEN Rej("InputTooShort")                 \* Header::decode: payload longer than the input
  ELSE IF m.outer = "str" THEN Rej("Invalid format of header")                    \* !header.list
  ELSE IF m.outer \in {"trail", "under"} THEN Rej("Reject the extra data")        \* header.payload_length != payload.len()
  ELSE IF m.arity = "empty" THEN Rej("InputTooShort")                             \* Bytes::decode(id) on an empty payload
  ELSE IF m.idlen > 8 THEN Rej("Invalid ID length")
  ELSE CASE m.t = 1 -> Ping(m) [] m.t = 2 -> Pong(m) [] m.t = 3 -> FindNode(m) [] m.t = 4 -> Nodes(m)
         [] m.t \in {5, 6} -> Talk(m) [] OTHER -> Rej("Unknown RPC message type")

\* --------------------------------------------------------------------------- what C06 demands
\* the rejections the statement lists, by clause (formula names of the monitor are "C06." \o clause)
Required(m) ==
     (IF m.outer \in {"short", "tiny", "over"} \/ m.arity \in {"missing", "empty"} \/ (m.t = 4 /\ m.inner = "long") THEN {"Missing"} ELSE {})
  \cup (IF m.outer \in {"trail", "under"} \/ m.arity = "extra" THEN {"Trailing"} ELSE {})
  \cup (IF m.idlen > 8 THEN {"IdLength"} ELSE {})
  \cup (IF m.t = 3 /\ m.dist \in {"gt256", "over"} THEN {"Distance"} ELSE {})
  \cup (IF m.t = 2 /\ m.port = "zero" THEN {"Port"} ELSE {})
  \cup (IF m.t = 2 /\ m.ip = "badlen" THEN {"IpLength"} ELSE {})
  \cup (IF m.t = 4 /\ m.nrec > 0 /\ m.recq # "valid" THEN {"Record"} ELSE {})
  \* bytes after the inner list of a NODES response are trailing bytes (the encoding of the message the decoder returns is a
  \* different byte string); kept apart from "Trailing" because the pinned tree accepts them (DESIGN section 6, F10)
  \cup (IF m.t = 4 /\ m.inner = "short" THEN {"InnerListLength"} ELSE {})
\* departures the statement does not speak about (the decision of the code is checked by the strict pass only)
Other(m) ==
     (IF m.t \notin 1..6 THEN {"Type"} ELSE {})
  \cup (IF m.seq \in {"over", "lead"} THEN {"Seq:" \o m.seq} ELSE {})
  \cup (IF m.port = "over" THEN {"Port:over"} ELSE {})
  \cup (IF m.outer = "str" THEN {"Outer:str"} ELSE {})
  \cup (IF m.inner = "str" THEN {"Inner:str"} ELSE {})
Devs(m) == Required(m) \cup Other(m)
\* well-formed: the encoding of one of the six messages; must decode to exactly that message
WellFormed(m) == Devs(m) = {}
\* ... and the decoder's own encoding of the result is the same byte string (not so for the IPv6 forms that are mapped to
\* IPv4 by design; for ::1 the statement does not say which of the two it is)
Exact(m) == WellFormed(m) /\ m.ip \notin {"mapped", "compat", "loop"}
Unconstrained(m) == Required(m) = {} /\ ~WellFormed(m)

\* the design obligations (checked by TLC over all of Cases)
DesignStrict(m) == Required(m) # {} => ~Verdict(m).acc
DesignInnerListLength(m) == "InnerListLength" \in Required(m) => ~Verdict(m).acc
DesignExact(m)  == WellFormed(m) => Verdict(m).acc
DesignOther(m)  == Other(m) # {} => ~Verdict(m).acc          \* not demanded by C06; documents what the code does
=============================================================================
