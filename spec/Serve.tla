------------------------------- MODULE Serve -------------------------------
(* Answering FINDNODE (src/service.rs: send_nodes_response, with kbucket::nodes_by_distances)   *)
(* and the datagram size of each NODES packet - decides C14 on the design.                       *)
(* A table is a sequence of [id, dist, size] (size = length of the RLP-encoded record).           *)
EXTENDS Integers, Sequences, FiniteSets
MAXPACKET == 1280
\* RLP lengths
BytesOf(n) == IF n < 256 THEN 1 ELSE IF n < 65536 THEN 2 ELSE 3
RlpHdr(n) == IF n < 56 THEN 1 ELSE 1 + BytesOf(n)
RlpStr(len) == IF len = 0 THEN 1 ELSE len + RlpHdr(len)          \* (a single byte < 0x80 would be 1; ids here are >= 2 bytes or empty)
RECURSIVE Sum(_)
Sum(q) == IF q = <<>> THEN 0 ELSE Head(q) + Sum(Tail(q))
\* NODES message: type byte || list[ request-id, total, list[records] ]
MsgLen(idlen, sizes) == LET inner == Sum(sizes)
                            payload == RlpStr(idlen) + 1 + (inner + RlpHdr(inner)) IN
                        1 + payload + RlpHdr(payload)
\* datagram of an ordinary message: IV (16) + static header (23) + auth-data = source id (32) + ciphertext + GCM tag (16)
WireSize(idlen, sizes) == 16 + 23 + 32 + MsgLen(idlen, sizes) + 16

\* fn send_nodes_response: distances sorted and deduplicated, 0 = own record first, then nodes_by_distances (the requester
\* filtered out *after* the cap), then split so that the records of one packet stay below MAX_PACKET_SIZE - 104
SortedSet(S) == LET RECURSIVE F(_) F(T) == IF T = {} THEN <<>> ELSE LET x == CHOOSE x \in T : \A y \in T : x <= y IN <<x>> \o F(T \ {x}) IN F(S)
AtDist(table, d) == SelectSeq(table, LAMBDA e : e.dist = d)
RECURSIVE Collect(_, _, _, _)
Collect(table, ds, max, acc) == IF ds = <<>> \/ Len(acc) >= max THEN SubSeq(acc, 1, IF Len(acc) > max THEN max ELSE Len(acc))
                                ELSE Collect(table, Tail(ds), max, acc \o AtDist(table, Head(ds)))
RECURSIVE Split(_, _, _)
Split(recs, packets, total) ==     \* packets: sequence of sequences; total = bytes in the last packet
  IF recs = <<>> THEN packets
  ELSE LET r == Head(recs)  k == Len(packets) IN
       IF r.size + total < MAXPACKET - 104
       THEN Split(Tail(recs), [packets EXCEPT ![k] = Append(@, r)], total + r.size)
       ELSE Split(Tail(recs), Append(packets, <<r>>), r.size)
ServeNodes(table, own, dsRaw, requester, maxnodes) ==
  LET dset == {dsRaw[i] : i \in 1..Len(dsRaw)}
      ds   == SortedSet({d \in dset : d >= 1 /\ d <= 256})
      first == IF 0 \in dset THEN <<own>> ELSE <<>>
      found == SelectSeq(Collect(table, ds, maxnodes, <<>>), LAMBDA e : e.id # requester)
      all == first \o found IN
  IF all = <<>> THEN <<<<>>>> ELSE Split(all, <<<<>>>>, 0)
=============================================================================
