---------------------------- MODULE TablePolicy ----------------------------
(* Admission / update policy of the routing table: src/service.rs (inject_session_established, *)
(* connection_updated, discovered, rpc_failure, UnverifiableEnr), src/discv5.rs (add_enr),        *)
(* src/ipmode.rs (get_contactable_addr), src/handler/mod.rs (verify_enr) - decides C12.           *)
(* A record is [id, seq, v4, v6, pass]: v4/v6 \in {"none", "src" (= the address the packets come    *)
(* from), "other"}, v6 may also be "mapped" (an IPv4-mapped address); pass = the table filter        *)
(* accepts it.  The table maps ids to a record or None.  Inserts may be refused by the bucket         *)
(* (full, incoming limit, IP limits): modelled as a nondeterministic refusal.                         *)
EXTENDS Integers, FiniteSets
CONSTANTS MODE                 \* "ip4" | "ip6" | "dual"
Ids == {"n1", "n2", "local"}
Recs == [id : Ids, seq : {1, 2}, v4 : {"none", "src", "other"}, v6 : {"none", "src", "other", "mapped"}, pass : BOOLEAN]
None == [id |-> "none"]
Canon6(r) == r.v6 \in {"src", "other"}
Contactable(r) == CASE MODE = "ip4" -> r.v4 # "none" [] MODE = "ip6" -> Canon6(r) [] OTHER -> Canon6(r) \/ r.v4 # "none"
\* handler: verify_enr(record, node_address) for a handshake from an address of family fam
Verify(r, claimed, fam) == r.id = claimed /\ (IF fam = 4 THEN r.v4 \in {"none", "src"} ELSE r.v6 \in {"none", "src"})
\* the set of possible next tables of each report
Established(table, r, claimed, fam, dir) ==      \* enabled only if the handler reports Established (otherwise UnverifiableEnr)
  IF ~Contactable(r) \/ ~r.pass \/ r.id = "local" THEN {table}          \* `fix: C12` the table filter applies on the session path too
  ELSE {table, [table EXCEPT ![r.id] = r]}
Unverifiable(table, claimed) == {[table EXCEPT ![claimed] = None]}
Discovered(table, r) ==
  IF r.id = "local" THEN {table}
  ELSE IF r.pass /\ Contactable(r)
       THEN (IF table[r.id] # None /\ table[r.id].seq < r.seq THEN {[table EXCEPT ![r.id] = r], [table EXCEPT ![r.id] = None]} ELSE {table})
       ELSE (IF table[r.id] # None /\ table[r.id].seq < r.seq THEN {[table EXCEPT ![r.id] = None]} ELSE {table})
AddEnr(table, r) == IF Contactable(r) /\ r.pass /\ r.id # "local" THEN {table, [table EXCEPT ![r.id] = r]} ELSE {table}
Remove(table, i) == {[table EXCEPT ![i] = None]}
=============================================================================
