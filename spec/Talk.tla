-------------------------------- MODULE Talk --------------------------------
(* TALK request objects of the service (src/service.rs: TalkRequest::{respond, drop}, the       *)
(* Talk arm of handle_rpc_request, service shutdown) - decides C20.                              *)
(* State t = [held : set of request numbers delivered to the application and not yet consumed,    *)
(*            running : BOOLEAN, n : number of requests delivered]                                *)
(* TStep(t, op) = [t, ret, out]; out = the responses handed to the transport in this step:        *)
(* <<request number, payload>> with payload "answer" (the application's) or "empty"; the response *)
(* is addressed to the node address the request came from (sender id, source socket) whatever the  *)
(* node knows about the sender - MC_Talk keeps the source per request and the trace monitor        *)
(* compares the address of every TALKRESP with the source of its request.                          *)
EXTENDS Integers, Sequences, FiniteSets

T0 == [held |-> {}, running |-> TRUE, n |-> 0]
TStep(t, op) ==
  CASE op.o = "request_in" ->        \* a TALKREQ arrives: the application gets a request object (only while the service runs)
         IF t.running THEN [t |-> [t EXCEPT !.n = @ + 1, !.held = @ \cup {t.n + 1}], ret |-> "delivered", out |-> <<>>]
         ELSE [t |-> t, ret |-> "lost", out |-> <<>>]
    [] op.o = "talk_respond" ->
         IF op.tr \notin t.held THEN [t |-> t, ret |-> "unresolved", out |-> <<>>]
         ELSE IF t.running THEN [t |-> [t EXCEPT !.held = @ \ {op.tr}], ret |-> "Ok(())",
                                 out |-> <<<<op.tr, IF "empty" \in DOMAIN op /\ op.empty THEN "empty" ELSE "answer">>>>]   \* (an empty payload is an answer too)
         ELSE [t |-> [t EXCEPT !.held = @ \ {op.tr}], ret |-> "Err(ChannelClosed)", out |-> <<>>]
    [] op.o = "talk_drop" ->
         IF op.tr \notin t.held THEN [t |-> t, ret |-> "unresolved", out |-> <<>>]
         ELSE IF t.running THEN [t |-> [t EXCEPT !.held = @ \ {op.tr}], ret |-> "dropped", out |-> <<<<op.tr, "empty">>>>]
         ELSE [t |-> [t EXCEPT !.held = @ \ {op.tr}], ret |-> "dropped", out |-> <<>>]
    [] op.o = "shutdown" -> [t |-> [t EXCEPT !.running = FALSE], ret |-> "ok", out |-> <<>>]
    [] OTHER -> [t |-> t, ret |-> "ok", out |-> <<>>]
=============================================================================
