----------------------------- MODULE Trace_Filter -----------------------------
(* Validation of implementation traces of the packet filter (`vh replay|drive filter`).                            *)
(*  STRICT = TRUE : every operation must be the specification's step: same stage verdicts, same ban list (with the   *)
(*                  expiry ticks), same limiter state (stored arrival times of the total / IP / node limiters),     *)
(*                  same node-id and banned-node tracking.                                                            *)
(*  STRICT = FALSE: monitor only: the C18 formulas (FViols of Filter.tla) on a ledger built from observations: the    *)
(*                  datagram, the two stage verdicts, the PERMIT_BAN_LIST snapshot before and after, the verdicts    *)
(*                  of the never-pruned copy.                                                                         *)
EXTENDS Filter, TLC, Json, IOUtils, SequencesExt
CONSTANT STRICT
Rec == ndJsonDeserialize(IOEnv.TRACE)
VARIABLES i, cfg, f, bl, arr, viols, sr
vars == <<i, cfg, f, bl, arr, viols, sr>>
C0 == [enabled |-> FALSE, rl |-> FALSE, ipq |-> NoQ, nodeq |-> NoQ, totq |-> NoQ, maxNodes |-> 0, maxBans |-> 0, banDur |-> 0]
Init == i = 1 /\ cfg = C0 /\ f = FNew(C0) /\ bl = Bl0 /\ arr = <<>> /\ viols = <<>> /\ sr = [f |-> FNew(C0), bl |-> Bl0, ret |-> OkRet]

SeqSet(s) == {s[j] : j \in 1..Len(s)}
Pairs(s) == {<<s[j][1], s[j][2]>> : j \in 1..Len(s)}
ObsBans(s) == {<<s[j][1], [perm |-> s[j][2], until |-> s[j][3]]>> : j \in 1..Len(s)}
ObsBl(x) == [pi |-> SeqSet(x.pi), bi |-> ObsBans(x.bi), pn |-> SeqSet(x.pn), bn |-> ObsBans(x.bn)]
\* The RateLimiter reads the real clock on top of the virtual time: a stored arrival time equal to the current tick (bucket
\* exactly full) may or may not survive a prune.  Such an entry is equivalent to no entry, so only later ones are compared
\* (the exact boundary of `prune` is checked at the limiter level, where time is explicit).
Later(m, now) == {p \in m : p[2] > now}
ProjF(ff, now) == [tot |-> Later(ff.rl.tot.tat, now), ip |-> Later(ff.rl.ip.tat, now), node |-> Later(ff.rl.node.tat, now), known |-> ff.known, bcnt |-> ff.bcnt]
ObsF(st, now) == [tot |-> Later(Pairs(st.tot), now), ip |-> Later(Pairs(st.ip), now), node |-> Later(Pairs(st.node), now),
             known |-> {<<st.known[j][1], SeqSet(st.known[j][2])>> : j \in 1..Len(st.known)}, bcnt |-> Pairs(st.bcnt)]
Quota(b, p) == IF b = 0 THEN NoQ ELSE [b |-> b, p |-> p]
Next ==
  /\ i <= Len(Rec) /\ i' = i + 1
  /\ LET e == Rec[i] IN
     IF e.op.o = "reset"
     THEN /\ cfg' = [enabled |-> e.op.enabled, rl |-> e.op.rl, ipq |-> Quota(e.op.ipb, e.op.ipp), nodeq |-> Quota(e.op.nodeb, e.op.nodep),
                     totq |-> Quota(e.op.totb, e.op.totp), maxNodes |-> e.op.maxNodes, maxBans |-> e.op.maxBans, banDur |-> e.op.banDur]
          /\ f' = IF cfg'.rl THEN FNew(cfg') ELSE FNew([cfg' EXCEPT !.ipq = NoQ, !.nodeq = NoQ, !.totq = NoQ])
          /\ bl' = Bl0 /\ arr' = <<>> /\ UNCHANGED <<viols, sr>>
     ELSE /\ UNCHANGED cfg
          /\ arr' = IF e.op.o = "pkt" THEN Append(arr, Entry(e.op, e.now, ObsBl(e.pre), ObsBl(e.post), e.ret, e.sh)) ELSE arr
          /\ viols' = IF e.op.o = "pkt" THEN viols \o SetToSeq({<<i, x>> : x \in FViols(arr', cfg)}) ELSE viols
          /\ IF STRICT
             THEN /\ bl = ObsBl(e.pre)
                  /\ sr' = FStep(f, bl, cfg, e.now, e.op)
                  /\ sr'.ret = e.ret /\ sr'.bl = ObsBl(e.post) /\ ProjF(sr'.f, e.now) = ObsF(e.st, e.now) /\ e.st.clock = e.now
                  /\ f' = sr'.f /\ bl' = sr'.bl
             ELSE UNCHANGED <<f, bl, sr>>
Spec == Init /\ [][Next]_vars
Report == i <= Len(Rec) \/ PrintT(<<"VIOLS", ToJson(viols)>>)
Accepted == IF TLCGet("stats").diameter = Len(Rec) + 1 THEN TRUE
            ELSE Print(<<"REJECT", TLCGet("stats").diameter, Rec[TLCGet("stats").diameter]>>, FALSE)
=============================================================================
