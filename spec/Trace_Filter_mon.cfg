SPECIFICATION Spec
CONSTANT STRICT = FALSE
INVARIANT Report
POSTCONDITION Accepted
CHECK_DEADLOCK FALSE
