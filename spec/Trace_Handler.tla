--------------------------- MODULE Trace_Handler ---------------------------
(* Validation of implementation traces of the real Handler (written by `vh replay handler`).     *)
(*  STRICT = TRUE : every step must be a step of Handler.tla from the current specification      *)
(*                  state: same HandlerOut events in the same order, same datagrams on the wire   *)
(*                  (destination, kind, nonce name, key name, decrypted request/response), same    *)
(*                  exemption map, same session / challenge / request bookkeeping.                 *)
(*  STRICT = FALSE: monitor only.  The formulas of C01, C02, C03, C04, C13, C15, C19 are evaluated *)
(*                  on the *observations* (inputs the harness made, events, attributed datagrams,  *)
(*                  exemption map) with ledgers kept from observations only.                        *)
EXTENDS HandlerEnv, TLC, Json, IOUtils, SequencesExt, FiniteSetsExt
CONSTANTS STRICT, DEBUG
Rec == ndJsonDeserialize(IOEnv.TRACE)

VARIABLES l, h, env, m, viols
vars == <<l, h, env, m, viols>>


Socks0 == {"a1", "a1b", "a2", "a2b", "a3", "a3b", "aA", "aAb"}
ExpOf(e, s) == IF s \in DOMAIN e.exp THEN e.exp[s] ELSE 0
TOms == TO * 1000

\* =================================================================== strict conformance
Held(en, key) == \E i \in 1..Len(en.sess) : en.sess[i].kid = key
BodyEq(b, x) == /\ b.t = x.t
                /\ (b.t \in {"req", "resp"} => b.rid = x.rid /\ b.kind = x.kind)
NetMatch(en, d, x) ==
  /\ d.to = x.to /\ d.id = x.id
  /\ d.re = (x.same_as # "none")
  /\ IF d.kind = "way" THEN x.kind = "way" /\ d.idn = x.idn /\ d.echo = x.echo /\ d.enrseq = x.enrseq
     ELSE IF d.re THEN d.n = x.n          \* a byte-identical retransmission: the harness cannot always attribute it again
     ELSE /\ d.n = x.n
          /\ IF d.key # "none" /\ Held(en, d.key)
             THEN x.kind = d.kind /\ x.key = d.key /\ BodyEq(d.body, x.body)
             ELSE x.key = "none" /\ x.kind = (IF d.kind = "hs" THEN "hs" ELSE "rand")
          /\ (d.kind = "hs" => d.rec = x.rec)
EvMatch(v, x) ==
  /\ v.e = x.e
  /\ CASE v.e = "Established"  -> v.id = x.id /\ v.addr = x.addr /\ v.dir = x.dir /\ v.rec = x.rec
       [] v.e = "Request"      -> v.id = x.id /\ v.addr = x.addr /\ v.rid = x.rid /\ v.kind = x.kind
       [] v.e = "Response"     -> v.id = x.id /\ v.addr = x.addr /\ v.rid = x.rid /\ v.kind = x.kind /\ v.total = x.total
       [] v.e = "WhoAreYou"    -> v.id = x.id /\ v.addr = x.addr /\ v.ref = x.ref
       [] v.e = "RequestFailed"-> v.rid = x.rid /\ v.err = x.err
       [] v.e = "Unverifiable" -> v.id = x.id /\ v.addr = x.addr /\ v.rec = x.rec
       [] v.e = "Unrecognized" -> v.addr = x.addr
       [] v.e = "Expired"      -> [i \in 1..Len(v.addrs) |-> <<v.addrs[i].id, v.addrs[i].sock>>] = x.addrs
       [] OTHER -> FALSE
SnapMatch(h2, sn) ==
  /\ [i \in 1..Len(h2.sessq) |-> <<h2.sessq[i].addr.id, h2.sessq[i].addr.sock, h2.sessq[i].age>>] = sn.sessions
  /\ {<<h2.chal[i].addr.id, h2.chal[i].addr.sock>> : i \in 1..Len(h2.chal)} = ToSet(sn.chal) /\ Len(h2.chal) = Len(sn.chal)
  /\ {<<c.addr.id, c.addr.sock, c.rid, c.int, c.hs, c.retries, c.init>> : c \in ToSet(h2.active)} = ToSet(sn.active) /\ Len(h2.active) = Len(sn.active)
  /\ sn.nonces = Len(h2.active)
  /\ \A p \in ToSet(sn.pending) : Len(PendOf(h2, Addr(p[1], p[2]))) = p[3]
  /\ \A i \in 1..Len(h2.pend) : \E p \in ToSet(sn.pending) : p[1] = h2.pend[i].addr.id /\ p[2] = h2.pend[i].addr.sock
StepMatch(en, h2, e) ==
  /\ Len(h2.ev) = Len(e.out) /\ \A i \in 1..Len(e.out) : EvMatch(h2.ev[i], e.out[i])
  /\ Len(h2.tx) = Len(e.net) /\ \A i \in 1..Len(e.net) : NetMatch(en, h2.tx[i], e.net[i])
  /\ \A s \in Socks0 : ExpCount(h2, s) = ExpOf(e, s)
  /\ SnapMatch(h2, e.snap)

\* =================================================================== monitors (observations only)
M0 == [cfg |-> [retries |-> 1, cap |-> 1, ttl |-> 1],
       now |-> 0,
       sub  |-> <<>>,    \* submitted requests: [rid, id, sock, t, sent, term, resp, total]
       ints |-> <<>>,    \* internal requests seen on the wire: [rid, id, sock, t, maybe]
       anon |-> <<>>,    \* undecryptable datagrams of the node that may carry a request the ledger cannot see: [sock, t]
       ways |-> <<>>,    \* WHOAREYOUs of the node: [id, sock, idn, t, arm, amb]
       injs |-> <<>>,    \* per injected datagram: [k, party, claim, from, plain, key, chal, sig]
       sent |-> {},      \* <<party, plain>> the party really encrypted
       proved |-> {},    \* <<id, sock>> for which the holder of id's key took part
       wire |-> {},      \* <<key, n, bytes>> of the node's encrypted datagrams
       bans |-> <<>>,    \* non-empty once op Bans has put its permanent / far-future / expired entries on the process-global ban list
       nto  |-> {},      \* <<n, to>>: nonce and destination of every datagram the node sent (a WHOAREYOU may only echo one of these from there)
       idns |-> {},      \* <<idn, bytes>>
       cnt  |-> <<>>,    \* one <<rid or nonce, key>> per transmission of a request datagram (retransmissions included)
       hsof |-> {},      \* <<rid, bytes>> handshake datagrams per request
       idle |-> <<>>]    \* [key, units] session-clock units since the key was last used

In(e) == e["in"]
Kind(e) == In(e).k
Unres(e) == "unresolved" \in DOMAIN In(e)
Evs(e, name) == {i \in 1..Len(e.out) : e.out[i].e = name}
NewNet(e) == {i \in 1..Len(e.net) : e.net[i].same_as = "none"}
SubIdx(mm, rid) == FirstIdx(mm.sub, LAMBDA s : s.rid = rid)
IsExt(rid) == \E i \in 1..99 : rid = Name("r", i)

\* ---- ledger update
RECURSIVE UpdSub(_, _, _)
UpdSub(sub, e, i) ==          \* events of this step applied to the submitted-request records
  IF i > Len(e.out) THEN sub
  ELSE LET x == e.out[i]
           j == IF x.e \in {"Response", "RequestFailed"} THEN FirstIdx(sub, LAMBDA s : s.rid = x.rid) ELSE 0 IN
       IF j = 0 THEN UpdSub(sub, e, i + 1)
       ELSE LET s == sub[j]
                s2 == IF x.e = "RequestFailed" THEN [s EXCEPT !.term = @ + 1]
                      ELSE LET tot == IF s.resp = 0 THEN (IF x.kind = "nodes" /\ x.total > 1 THEN x.total ELSE 1) ELSE s.total
                           IN [s EXCEPT !.resp = @ + 1, !.total = tot, !.term = IF s.resp + 1 = tot THEN @ + 1 ELSE @]
            IN UpdSub([sub EXCEPT ![j] = s2], e, i + 1)
SentNow(e, s) ==      \* a datagram carrying request s.rid (or an anonymous random packet in the submitting step) went to its socket
  \/ \E i \in NewNet(e) : e.net[i].to = s.sock /\ e.net[i].body.t = "req" /\ e.net[i].body.rid = s.rid
  \/ (Kind(e) = "AppRequest" /\ In(e).rid = s.rid /\ \E i \in NewNet(e) : e.net[i].to = s.sock /\ e.net[i].kind \in {"rand", "msg", "hs"})
Accepted(e) == Evs(e, "Established") # {} \/ Evs(e, "Unverifiable") # {} \/ Evs(e, "Request") # {} \/ Evs(e, "Response") # {}
MonStep(mm, e) ==
  LET t == e.t
      sub1 == IF Kind(e) = "AppRequest" /\ ~Unres(e)
              THEN Append(mm.sub, [rid |-> In(e).rid, id |-> In(e).peer, sock |-> In(e).addr, t |-> t, sent |-> FALSE, term |-> 0, resp |-> 0, total |-> 0])
              ELSE mm.sub
      sub2 == UpdSub(sub1, e, 1)
      sub3 == [i \in 1..Len(sub2) |-> IF ~sub2[i].sent /\ SentNow(e, sub2[i]) THEN [sub2[i] EXCEPT !.sent = TRUE, !.t = t] ELSE sub2[i]]
      newInts == {i \in NewNet(e) : e.net[i].body.t = "req" /\ ~IsExt(e.net[i].body.rid) /\ ~\E j \in 1..Len(mm.ints) : mm.ints[j].rid = e.net[i].body.rid}
      ints1 == mm.ints \o SetToSeq({[rid |-> e.net[i].body.rid, id |-> e.net[i].id, sock |-> e.net[i].to, t |-> t, maybe |-> FALSE] : i \in newInts})
      \* an internal request stops being certainly outstanding once anything that may end it has happened
      ints2 == [i \in 1..Len(ints1) |->
                  IF \/ (Kind(e) \in {"PeerMessage", "PeerHandshake", "Replay", "Mutate"} /\ In(e).from = ints1[i].sock)
                     \/ Kind(e) \in {"Advance", "Quiesce"} \/ Evs(e, "RequestFailed") # {}
                     \/ (Kind(e) \in {"PeerWhoAreYou"} /\ In(e).from = ints1[i].sock)
                  THEN [ints1[i] EXCEPT !.maybe = TRUE] ELSE ints1[i]]
      \* ... and is over for certain when its answer made the node report the peer as established
      ints3 == SelectSeq(ints2, LAMBDA x : t < x.t + 3 * TOms /\
                   ~(Kind(e) = "PeerMessage" /\ ~Unres(e) /\ In(e).msg.t = "resp" /\ In(e).msg.rid = x.rid /\ In(e).from = x.sock /\ Evs(e, "Established") # {}))
      anon1 == SelectSeq(mm.anon, LAMBDA x : t < x.t + 3 * TOms)
               \o SetToSeq({[sock |-> e.net[i].to, t |-> t, i |-> i] : i \in {i \in NewNet(e) : e.net[i].kind = "rand" /\ Kind(e) # "AppRequest"}})
      \* challenges of the node: emitted now; answered (accepted) / rejected (ambiguous, timer possibly re-armed) / expired
      ways1 == mm.ways \o SetToSeq({[id |-> e.net[i].id, sock |-> e.net[i].to, idn |-> e.net[i].idn, t |-> t, arm |-> t, amb |-> FALSE, dip |-> FALSE] : i \in {i \in NewNet(e) : e.net[i].kind = "way"}})
      \* what is presented to the node in this step is (a copy / a tampered copy of) a handshake
      origKind == IF Kind(e) \in {"Replay", "Mutate"} /\ In(e).idx \in 1..Len(mm.injs) /\ mm.injs[In(e).idx].orig \in 1..Len(mm.injs)
                  THEN mm.injs[mm.injs[In(e).idx].orig].k ELSE Kind(e)
      hsIn == origKind = "PeerHandshake" /\ ~Unres(e)
      ways2a == [i \in 1..Len(ways1) |->
                  IF hsIn /\ In(e).from = ways1[i].sock /\ ways1[i].t < t THEN [ways1[i] EXCEPT !.amb = TRUE, !.arm = t] ELSE ways1[i]]
      \* while it is uncertain whether a challenge is still outstanding, remember whether its exemption was seen missing
      sureAt(s) == Cardinality({i \in 1..Len(sub3) : sub3[i].sock = s /\ sub3[i].sent /\ sub3[i].term = 0})
                   + Cardinality({i \in 1..Len(ints3) : ints3[i].sock = s /\ ~ints3[i].maybe})
                   + Cardinality({i \in 1..Len(ways2a) : ways2a[i].sock = s /\ ~ways2a[i].amb})
      ways2 == [i \in 1..Len(ways2a) |->
                  IF ways2a[i].amb /\ ~(hsIn /\ Accepted(e) /\ In(e).from = ways2a[i].sock) /\ ExpOf(e, ways2a[i].sock) <= sureAt(ways2a[i].sock)
                  THEN [ways2a[i] EXCEPT !.dip = TRUE] ELSE ways2a[i]]
      ways3 == SelectSeq(ways2, LAMBDA w : ~(hsIn /\ In(e).from = w.sock /\ Accepted(e) /\ w.t < t) /\ t < w.arm + TOms)
      inj1 == IF Kind(e) \in {"PeerRandom", "PeerWhoAreYou", "PeerHandshake", "PeerMessage", "Replay", "Reflect", "Mutate"} /\ ~Unres(e)
              THEN Append(mm.injs, [k |-> Kind(e), party |-> Get(In(e), "party", "none"), claim |-> Get(In(e), "claim", "none"), from |-> In(e).from,
                                    plain |-> Get(In(e), "plain", "none"), key |-> Get(In(e), "key", "none"), sig |-> Get(In(e), "sig", "own"),
                                    orig |-> IF Kind(e) \in {"Replay", "Mutate"} /\ In(e).idx \in 1..Len(mm.injs) THEN mm.injs[In(e).idx].orig ELSE Len(mm.injs) + 1])
              ELSE mm.injs
      sent1 == IF Kind(e) \in {"PeerMessage", "PeerHandshake"} /\ ~Unres(e) /\ "plain" \in DOMAIN In(e)
               THEN mm.sent \cup {<<IF Kind(e) = "PeerHandshake" THEN In(e).claim ELSE Get(In(e), "claim", In(e).party), In(e).party, In(e).plain, In(e).from>>} ELSE mm.sent
      proved1 == mm.proved
                 \cup (IF Kind(e) = "AppRequest" THEN {<<In(e).peer, In(e).addr>>} ELSE {})
                 \cup (IF Kind(e) = "PeerHandshake" /\ ~Unres(e) /\ In(e).party = In(e).claim /\ Get(In(e), "sig", "own") = "own" THEN {<<In(e).claim, In(e).from>>} ELSE {})
      wire1 == mm.wire \cup {<<e.net[i].key, e.net[i].n, e.net[i].bytes>> : i \in {i \in 1..Len(e.net) : e.net[i].key # "none"}}
      nto1 == mm.nto \cup {<<e.net[i].n, e.net[i].to>> : i \in {i \in 1..Len(e.net) : e.net[i].kind # "way"}}
      idns1 == mm.idns \cup {<<e.net[i].idn, e.net[i].bytes>> : i \in {i \in 1..Len(e.net) : e.net[i].kind = "way"}}
      hsof1 == mm.hsof \cup {<<e.net[i].body.rid, e.net[i].bytes>> : i \in {i \in 1..Len(e.net) : e.net[i].kind = "hs" /\ e.net[i].body.t = "req"}}
      cnt1 == mm.cnt \o [i \in 1..Len(e.net) |-> IF e.net[i].kind = "way" THEN <<"-", "-">>
                                                   ELSE IF e.net[i].body.t = "req" THEN <<e.net[i].body.rid, e.net[i].key>> ELSE IF e.net[i].kind = "rand" THEN <<e.net[i].n, "none">> ELSE <<"-", "-">>]
      used == {e.net[i].key : i \in {i \in NewNet(e) : e.net[i].key # "none" /\ e.net[i].kind = "msg"}}
              \cup (IF Kind(e) = "PeerMessage" /\ ~Unres(e) /\ (Evs(e, "Request") # {} \/ Evs(e, "Response") # {}) THEN {In(e).key} ELSE {})
              \cup {e.net[i].key : i \in {i \in NewNet(e) : e.net[i].key # "none" /\ e.net[i].kind = "hs"}}
              \cup (IF Kind(e) = "PeerHandshake" /\ ~Unres(e) /\ Accepted(e) THEN {In(e).key} ELSE {})
      idle1 == [i \in 1..Len(mm.idle) |-> IF mm.idle[i].key \in used THEN [mm.idle[i] EXCEPT !.u = 0]
                                          ELSE IF Kind(e) = "AgeSessions" THEN [mm.idle[i] EXCEPT !.u = @ + In(e).units] ELSE mm.idle[i]]
      idle2 == idle1 \o SetToSeq({[key |-> k, u |-> 0] : k \in {k \in used : ~\E i \in 1..Len(mm.idle) : mm.idle[i].key = k}})
  IN [mm EXCEPT !.now = t, !.sub = sub3, !.ints = ints3, !.anon = anon1, !.ways = ways3, !.injs = inj1, !.sent = sent1, !.proved = proved1,
                !.wire = wire1, !.bans = IF Kind(e) = "Bans" THEN <<"set">> ELSE @, !.nto = nto1, !.idns = idns1, !.hsof = hsof1, !.idle = idle2, !.cnt = cnt1]

\* ---- the property formulas, evaluated on the ledger before the step (mm), the step (e) and the ledger after it (m2)
Count(S) == Cardinality(S)
MonViol(mm, m2, e) ==
  LET t == e.t IN
  \* ---------------- C04
  (IF \E i \in 1..Len(m2.sub) : m2.sub[i].term > 1 THEN {"C04.TwoOutcomes"} ELSE {})
  \cup (IF \E i \in 1..Len(mm.sub) : mm.sub[i].term >= 1 /\ \E j \in 1..Len(e.out) : e.out[j].e \in {"Response", "RequestFailed"} /\ e.out[j].rid = mm.sub[i].rid
        THEN {"C04.EventAfterOutcome"} ELSE {})
  \cup (IF Kind(e) = "Quiesce" /\ \E i \in 1..Len(m2.sub) : m2.sub[i].term = 0 THEN {"C04.NoOutcome"} ELSE {})
  \cup (IF \E j \in Evs(e, "RequestFailed") : e.out[j].err = "Timeout" /\
             LET i == SubIdx(mm, e.out[j].rid) IN
               i # 0 /\ ~(\/ \E x \in 1..Len(mm.sub) : mm.sub[x].id = mm.sub[i].id /\ mm.sub[x].sock = mm.sub[i].sock /\ mm.sub[x].term = 0 /\ mm.sub[x].t + TOms <= t
                          \/ \E x \in 1..Len(mm.ints) : mm.ints[x].id = mm.sub[i].id /\ mm.ints[x].sock = mm.sub[i].sock /\ mm.ints[x].t + TOms <= t)
        THEN {"C04.TimeoutUnjustified"} ELSE {})
  \cup (IF \E x \in ToSet(m2.cnt) : x[1] # "-" /\ Count({i \in 1..Len(m2.cnt) : m2.cnt[i] = x}) > 1 + mm.cfg.retries THEN {"C04.WireBound"} ELSE {})
  \* ---------------- C13: lo <= exemptions <= hi per socket; nothing left at quiescence
  \cup (IF \E s \in Socks0 :
            LET sure  == Count({i \in 1..Len(m2.sub) : m2.sub[i].sock = s /\ m2.sub[i].sent /\ m2.sub[i].term = 0})
                        + Count({i \in 1..Len(m2.ints) : m2.ints[i].sock = s /\ ~m2.ints[i].maybe})
                        + Count({i \in 1..Len(m2.ways) : m2.ways[i].sock = s /\ ~m2.ways[i].amb /\ t < m2.ways[i].t + TOms})
                maybe == Count({i \in 1..Len(m2.sub) : m2.sub[i].sock = s /\ ~m2.sub[i].sent /\ m2.sub[i].term = 0})
                        + Count({i \in 1..Len(m2.ints) : m2.ints[i].sock = s /\ m2.ints[i].maybe})
                        + Count({i \in 1..Len(m2.anon) : m2.anon[i].sock = s})
                        + Count({i \in 1..Len(m2.ways) : m2.ways[i].sock = s /\ (m2.ways[i].amb \/ t >= m2.ways[i].t + TOms)})
            IN ExpOf(e, s) < sure \/ ExpOf(e, s) > sure + maybe
        THEN {"C13.Count"} ELSE {})
  \cup (IF Kind(e) = "Quiesce" /\ DOMAIN e.exp # {} THEN {"C13.LeftOver"} ELSE {})
  \* a handshake accepted now proves its challenge was outstanding all along: its exemption must not have been missing meanwhile
  \cup (IF Kind(e) = "PeerHandshake" /\ ~Unres(e) /\ (Evs(e, "Established") # {} \/ Evs(e, "Unverifiable") # {})
           /\ \E i \in 1..Len(mm.ways) : mm.ways[i].sock = In(e).from /\ mm.ways[i].idn = In(e).chal /\ mm.ways[i].dip
        THEN {"C13.ReleasedEarly"} ELSE {})
  \* ---------------- C01: attribution to X needs X's key (or the node's own initiative towards X at that socket)
  \cup (IF \E j \in 1..Len(e.out) : e.out[j].e \in {"Established", "Request", "Response", "Unverifiable"} /\ e.out[j].id # "A"
                                       /\ <<e.out[j].id, e.out[j].addr>> \notin m2.proved
        THEN {"C01.Attribution"} ELSE {})
  \cup (IF \E i \in 1..Len(e.net) : e.net[i].holder = "A" /\ e.net[i].id # "A" THEN {"C01.KeyDisclosed"} ELSE {})
  \* ---------------- C02: what is delivered as coming from P is a plaintext P encrypted
  \cup (IF \E j \in 1..Len(e.out) : e.out[j].e \in {"Request", "Response"} /\ ~\E x \in m2.sent : x[2] = e.out[j].id /\ x[3] = e.out[j].plain
        THEN {"C02.Delivered"} ELSE {})
  \* ... and it is delivered as coming from the socket its author sent it from (not from where somebody presented it again)
  \cup (IF \E j \in 1..Len(e.out) : e.out[j].e \in {"Request", "Response"} /\ (\E x \in m2.sent : x[2] = e.out[j].id /\ x[3] = e.out[j].plain)
                                       /\ ~\E x \in m2.sent : x[2] = e.out[j].id /\ x[3] = e.out[j].plain /\ x[4] = e.out[j].addr
        THEN {"C02.WrongSource"} ELSE {})
  \cup (IF (Kind(e) = "Mutate" \/ "mut" \in DOMAIN In(e)) /\ ~Unres(e) /\ Get(In(e), "changed", FALSE)
           /\ (Evs(e, "Request") # {} \/ Evs(e, "Response") # {})     \* (a handshake whose message part was tampered with still proves the peer: Established is not a delivery)
        THEN {"C02.MutantAccepted"} ELSE {})
  \* ---------------- C03
  \cup (IF Kind(e) \in {"Replay"} /\ ~Unres(e) /\ In(e).idx \in 1..Len(mm.injs) /\ mm.injs[In(e).idx].k = "PeerHandshake"
           /\ (Evs(e, "Established") # {} \/ Evs(e, "Unverifiable") # {} \/ Evs(e, "Request") # {} \/ Evs(e, "Response") # {})
        THEN {"C03.ReplayAccepted"} ELSE {})
  \cup (IF Kind(e) = "PeerHandshake" /\ ~Unres(e) /\ (Evs(e, "Established") # {} \/ Evs(e, "Unverifiable") # {})
           /\ ~\E i \in 1..Len(mm.ways) : mm.ways[i].id = In(e).claim /\ mm.ways[i].sock = In(e).from /\ mm.ways[i].idn = In(e).chal
        THEN {"C03.NoChallenge"} ELSE {})
  \cup (IF Kind(e) = "PeerWhoAreYou" /\ ~Unres(e) /\ (\E i \in NewNet(e) : e.net[i].kind = "hs") /\
           ~\E i \in NewNet(e) : e.net[i].kind = "hs" /\ e.net[i].to = In(e).from
        THEN {"C03.WrongSource"} ELSE {})
  \cup (IF \E r \in {x[1] : x \in m2.hsof} : Count({x \in m2.hsof : x[1] = r}) > 1 THEN {"C03.TwoHandshakes"} ELSE {})
  \* a WHOAREYOU that does not echo the nonce of a datagram the node sent to the address it comes from is not acted on at all
  \cup (IF Kind(e) = "PeerWhoAreYou" /\ ~Unres(e) /\ <<In(e).echo, In(e).from>> \notin mm.nto /\ (Len(e.out) > 0 \/ NewNet(e) # {})
        THEN {"C03.ActedOnForeign"} ELSE {})
  \* ---------------- C12 (handler part): an incoming session is reported established only if the UDP address of the record
  \* equals the address the handshake came from (a record without address fields is not admissible downstream anyway)
  \cup (IF \E j \in Evs(e, "Established") : e.out[j].dir = "In" /\ e.out[j].rec # "L:1" /\ RecOf(e.out[j].rec).sock \notin {"none", e.out[j].addr}
        THEN {"C12.SingleStack"} ELSE {})
  \* ... and a session is reported established for the node the exchange is with, not for the owner of a record that merely appeared
  \* in one of its answers (the record request of a contact without record)
  \cup (IF Kind(e) \in {"PeerMessage", "PeerHandshake"} /\ ~Unres(e) /\ "claim" \in DOMAIN In(e)
           /\ \E j \in Evs(e, "Established") : e.out[j].id # In(e).claim
        THEN {"C12.EstablishedForeign"} ELSE {})
  \* ---------------- C18 (handler part): the periodic unban check removes expired bans only - a permanent ban and one whose time has
  \* not come stay ("banned for at least the configured duration")
  \cup (IF "bans" \in DOMAIN e /\ (mm.bans # <<>> \/ Kind(e) = "Bans")
           /\ \E b \in {"ip:perm", "node:perm", "ip:future", "node:future"} : ~\E j \in 1..Len(e.bans) : e.bans[j] = b
        THEN {"C18.UnbanTimer"} ELSE {})
  \* ---------------- C15 (handler part)
  \cup (IF Len(Get(e.snap, "sessions", <<>>)) > mm.cfg.cap THEN {"C15.Capacity"} ELSE {})
  \cup (IF \E i \in 1..Len(mm.idle) : mm.idle[i].u > mm.cfg.ttl /\
             (\/ \E j \in NewNet(e) : e.net[j].key = mm.idle[i].key /\ e.net[j].kind = "msg"
              \/ (Kind(e) = "PeerMessage" /\ ~Unres(e) /\ In(e).key = mm.idle[i].key /\ (Evs(e, "Request") # {} \/ Evs(e, "Response") # {})))
        THEN {"C15.StaleSessionUsed"} ELSE {})
  \* ---------------- C19
  \cup (IF \E x \in m2.wire : \E y \in m2.wire : x[1] = y[1] /\ x[2] = y[2] /\ x[3] # y[3] THEN {"C19.NonceReuse"} ELSE {})
  \cup (IF \E x \in m2.idns : \E y \in m2.idns : x[1] = y[1] /\ x[2] # y[2] THEN {"C19.IdNonceReuse"} ELSE {})
  \* the harness keeps one ledger of raw id-nonces for the whole run (all behaviours): idnrep = this value was already
  \* carried by a different WHOAREYOU datagram, possibly of an earlier behaviour
  \cup (IF \E i \in DOMAIN e.net : e.net[i].kind = "way" /\ "idnrep" \in DOMAIN e.net[i] /\ e.net[i].idnrep
        THEN {"C19.IdNonceReuse"} ELSE {})
  \cup (IF Evs(e, "Panic") # {} THEN {"Panic"} ELSE {})

Next ==
  /\ l <= Len(Rec) /\ l' = l + 1
  /\ LET e == Rec[l] IN
     IF Kind(e) = "Reset"
     THEN /\ h' = HInit(In(e).retries, In(e).cap, In(e).sess_ttl) /\ env' = EInit
          /\ m' = [M0 EXCEPT !.cfg = [retries |-> In(e).retries, cap |-> In(e).cap, ttl |-> In(e).sess_ttl]]
          /\ UNCHANGED viols
     ELSE /\ m' = MonStep(m, e)
          /\ viols' = viols \o SetToSeq({<<l, f>> : f \in MonViol(m, m', e)})
          /\ IF STRICT
             THEN LET rin == IF Unres(e) THEN [k |-> "Nop"] ELSE Resolve(h, env, In(e))
                      e1  == IF Unres(e) THEN env ELSE EnvIn(env, In(e), rin) IN
                  \E h2 \in HStep(h, rin) :
                     /\ env' = EnvOut(e1, In(e), h2)
                     /\ (IF StepMatch(env', h2, e) THEN TRUE ELSE (DEBUG /\ PrintT(<<"MISMATCH", l, "ev", h2.ev, "tx", h2.tx, "exp", h2.exp, "active", h2.active, "chal", h2.chal, "sessq", h2.sessq, "pend", h2.pend>>)))
                     /\ h' = h2
             ELSE UNCHANGED <<h, env>>
Init == l = 1 /\ h = HInit(1, 1, 1) /\ env = EInit /\ m = M0 /\ viols = <<>>
Spec == Init /\ [][Next]_vars

Report == l <= Len(Rec) \/ PrintT(<<"VIOLS", ToJson(viols)>>)
Accepted0 == IF TLCGet("stats").diameter = Len(Rec) + 1 THEN TRUE
             ELSE Print(<<"REJECT", TLCGet("stats").diameter, Rec[TLCGet("stats").diameter]>>, FALSE)
=============================================================================
