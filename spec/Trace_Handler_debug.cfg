SPECIFICATION Spec
CONSTANTS
  TO = 10
  STRICT = TRUE
  DEBUG = TRUE
INVARIANT Report
POSTCONDITION Accepted0
CHECK_DEADLOCK FALSE
