SPECIFICATION Spec
CONSTANTS
  TO = 10
  STRICT = TRUE
  DEBUG = FALSE
INVARIANT Report
POSTCONDITION Accepted0
CHECK_DEADLOCK FALSE
