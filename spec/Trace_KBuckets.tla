--------------------------- MODULE Trace_KBuckets ---------------------------
(* Validation of implementation traces of KBucketsTable (written by `vh replay|drive kb`).    *)
(*  STRICT = TRUE : each event must be the specification's step (return value and full table, *)
(*                  including first_connected_pos and the pending slot with its timer).        *)
(*  STRICT = FALSE: monitor only; the C07 / C08 / C16 formulas of KBuckets.tla are evaluated   *)
(*                  on the *observed* tables (previous and current event) with the stamp        *)
(*                  ledger of KBuckets!StampStep; every event is consumed.  A state formula is  *)
(*                  reported at the step that falsifies it (true before, false after).           *)
EXTENDS KBuckets, TLC, Json, IOUtils, SequencesExt
CONSTANT STRICT
Rec == ndJsonDeserialize(IOEnv.TRACE)

VARIABLES l, tb, cfg, m, viols, obs, sr
vars == <<l, tb, cfg, m, viols, obs, sr>>

Cfg0 == [K |-> 16, maxin |-> 16, bl |-> 0, tl |-> 0, pt |-> 0, bits |-> 1]
M0(c) == [tb |-> EmptyTable(c), stamp |-> <<>>, n |-> 1]
Init == l = 1 /\ cfg = Cfg0 /\ tb = EmptyTable(Cfg0) /\ m = M0(Cfg0) /\ viols = <<>> /\ obs = EmptyTable(Cfg0) /\ sr = [tb |-> <<>>, ret |-> "ok"]

LNode(x) == [key |-> x[1], val |-> [k |-> x[2][1], sub |-> x[2][2], ver |-> x[2][3]], st |-> x[3], dr |-> x[4]]
LBucket(x) == [nodes |-> [i \in 1..Len(x[2]) |-> LNode(x[2][i])],
               fcp   |-> IF x[3] = 0 THEN -1 ELSE Len(x[2]) - x[3],
               pend  |-> IF x[4] = <<>> THEN NoPend ELSE [on |-> TRUE, node |-> LNode(x[4]), at |-> x[4][5]]]
Lift(st, c) == [b \in Buckets(c) |-> LBucket(st[CHOOSE i \in 1..Len(st) : st[i][1] = b])]
Stray(st) == \E i \in 1..Len(st) : st[i][1] = -1

SubsOf(t, c) == {StoredVals(t, c)[i].sub : i \in 1..Len(StoredVals(t, c))} \ {"n"}

MonViol(mm, c, e, post, st2) ==
  LET op == e.op  ret == e.ret.v  pre == mm.tb IN
  (IF ~C07Cap(post, c) /\ C07Cap(pre, c) THEN {"C07.Cap"} ELSE {})
  \cup (IF (~C07Place(post, c) /\ C07Place(pre, c)) \/ Stray(e.st) THEN {"C07.Place"} ELSE {})
  \cup (IF ~C07Unique(post, c) /\ C07Unique(pre, c) THEN {"C07.Unique"} ELSE {})
  \cup (IF ~C07Groups(post, c) /\ C07Groups(pre, c) THEN {"C07.Groups"} ELSE {})
  \cup (IF ~C07Incoming(post, c) /\ C07Incoming(pre, c) THEN {"C07.Incoming"} ELSE {})
  \cup (IF ~C07Order(post, c, st2) /\ C07Order(pre, c, mm.stamp) THEN {"C07.Order"} ELSE {})
  \cup (IF ~C07PendTimeout(pre, post, c, op) THEN {"C07.PendTimeout"} ELSE {})
  \cup (IF ~C07PendEvict(pre, post, c, op) THEN {"C07.PendEvict"} ELSE {})
  \cup (IF ~C07PendDiscard(pre, post, c, op, ret) THEN {"C07.PendDiscard"} ELSE {})
  \cup (IF ~C16Bucket(post, c, SubsOf(post, c)) /\ C16Bucket(pre, c, SubsOf(pre, c)) THEN {"C16.Bucket"} ELSE {})
  \cup (IF ~C16Table(post, c, SubsOf(post, c)) /\ C16Table(pre, c, SubsOf(pre, c)) THEN {"C16.Table"} ELSE {})
  \cup (IF "panic" \in DOMAIN e.ret THEN {"Panic"} ELSE
        (IF op.o = "closest" /\ ~C08Closest(post, c, op, ret) THEN {"C08.Closest"} ELSE {})
        \cup (IF op.o = "closest_pred" /\ ~(C08Closest(post, c, op, [i \in 1..Len(ret) |-> ret[i][1]]) /\ C08Flags(post, c, ret))
              THEN {"C08.ClosestPred"} ELSE {})
        \cup (IF op.o = "nbd" /\ ~C08Nbd(post, c, op, ret) THEN {"C08.ByDistance"} ELSE {}))

Next ==
  /\ l <= Len(Rec) /\ l' = l + 1
  /\ LET e == Rec[l] IN
     IF e.op.o = "reset"
     THEN LET c == [K |-> e.op.K, maxin |-> e.op.maxin, bl |-> e.op.bl, tl |-> e.op.tl, pt |-> e.op.pt, bits |-> e.op.bits] IN
          /\ cfg' = c /\ tb' = EmptyTable(c) /\ m' = M0(c) /\ obs' = EmptyTable(c) /\ UNCHANGED <<viols, sr>>
     ELSE /\ UNCHANGED cfg
          /\ obs' = Lift(e.st, cfg)          \* bound to a variable first: a concrete value, evaluated once
          /\ m' = [tb |-> obs', stamp |-> StampStep(m.stamp, m.n, m.tb, obs', cfg, e.op, e.ret.v), n |-> m.n + 1]
          /\ viols' = viols \o SetToSeq({<<l, f>> : f \in MonViol(m, cfg, e, obs', m'.stamp)})
          /\ IF STRICT
             THEN /\ "panic" \notin DOMAIN e.ret
                  /\ sr' = Step(tb, cfg, e.op)
                  /\ sr'.ret = e.ret.v /\ sr'.tb = obs' /\ tb' = obs'
             ELSE tb' = tb /\ sr' = sr
Spec == Init /\ [][Next]_vars

Report == l <= Len(Rec) \/ PrintT(<<"VIOLS", ToJson(viols)>>)
Accepted == IF TLCGet("stats").diameter = Len(Rec) + 1 THEN TRUE
            ELSE Print(<<"REJECT", TLCGet("stats").diameter, Rec[TLCGet("stats").diameter]>>, FALSE)
=============================================================================
