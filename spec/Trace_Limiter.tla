---------------------------- MODULE Trace_Limiter ----------------------------
(* Validation of implementation traces of the GCRA limiter (`vh replay|drive limiter`).                          *)
(*  STRICT = TRUE : every call must be the specification's step (same verdict, same waiting time, same stored     *)
(*                  arrival times).                                                                                *)
(*  STRICT = FALSE: monitor only: the C18 formulas (LViols of Filter.tla) on a ledger of the observed arrivals.    *)
EXTENDS Filter, TLC, Json, IOUtils, SequencesExt
CONSTANT STRICT
Rec == ndJsonDeserialize(IOEnv.TRACE)
VARIABLES i, q, l, led, viols, sr
vars == <<i, q, l, led, viols, sr>>
Q0 == [b |-> 1, p |-> 1]
Init == i = 1 /\ q = Q0 /\ l = LimNew(Q0) /\ led = <<>> /\ viols = <<>> /\ sr = [l |-> LimNew(Q0), ret |-> <<"Ok", 0>>]
ObsTat(st) == {<<st[j][1], st[j][2]>> : j \in 1..Len(st)}
Next ==
  /\ i <= Len(Rec) /\ i' = i + 1
  /\ LET e == Rec[i] IN
     IF e.op.o = "reset"
     THEN /\ q' = [b |-> e.op.b, p |-> e.op.p] /\ l' = LimNew(q') /\ led' = <<>> /\ UNCHANGED <<viols, sr>>
     ELSE /\ UNCHANGED q
          /\ led' = IF e.op.o = "allows"
                    THEN Append(led, [t |-> e.now, w |-> e.op.n, k |-> e.op.k, ok |-> e.ret[1] = "Ok", sh |-> e.sh[1] = "Ok"])
                    ELSE led
          /\ viols' = IF e.op.o = "allows" THEN viols \o SetToSeq({<<i, f>> : f \in LViols(led', q)}) ELSE viols
          /\ IF STRICT
             THEN /\ sr' = LStep(l, e.now, e.op)
                  /\ sr'.ret = e.ret /\ sr'.l.tat = ObsTat(e.st) /\ l' = sr'.l
             ELSE UNCHANGED <<l, sr>>
Spec == Init /\ [][Next]_vars
Report == i <= Len(Rec) \/ PrintT(<<"VIOLS", ToJson(viols)>>)
Accepted == IF TLCGet("stats").diameter = Len(Rec) + 1 THEN TRUE
            ELSE Print(<<"REJECT", TLCGet("stats").diameter, Rec[TLCGet("stats").diameter]>>, FALSE)
=============================================================================
