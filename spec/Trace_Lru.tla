------------------------------ MODULE Trace_Lru ------------------------------
(* Validation of implementation traces of LruTimeCache (written by `vh replay|drive lru`).   *)
(*                                                                                           *)
(*  STRICT = TRUE : every event must be the step the specification takes from the current    *)
(*                  specification state (same return value, same projected state).           *)
(*  STRICT = FALSE: monitor only.  The property formulas of C15(a) are evaluated on the       *)
(*                  *observed* returns and states with a ledger built from observations;     *)
(*                  every event is consumed, so the whole trace is judged.                    *)
(* In both modes `viols` collects <<line, formula>> for every property formula an observed    *)
(* step falsifies; it is printed when the last line has been consumed.                        *)
EXTENDS LruTimeCache, TLC, Json, IOUtils, SequencesExt
CONSTANT STRICT
Rec == ndJsonDeserialize(IOEnv.TRACE)

VARIABLES l, q, cfg, m, viols, sr
vars == <<l, q, cfg, m, viols, sr>>

M0 == [used |-> <<>>, n |-> 0, t |-> 0, keys |-> {}]
Init == l = 1 /\ q = <<>> /\ cfg = [cap |-> 1, ttl |-> 1] /\ m = M0 /\ viols = <<>> /\ sr = [q |-> <<>>, ret |-> None]

StKeys(st) == {st[i][1] : i \in 1..Len(st)}
Proj(qq) == [i \in 1..Len(qq) |-> <<qq[i].k, qq[i].age>>]
RetEq(r, e) == r.hit = e.hit /\ r.v = e.v /\ (IF "keys" \in DOMAIN r THEN r.keys ELSE <<>>) = e.keys

\* ledger update from observations only
MonStep(mm, c, e) ==
  LET op == e.op
      t2 == mm.t + (IF op.o = "tick" THEN op.d ELSE 0)
      n2 == mm.n + 1
      ks == StKeys(e.st)
      refreshed == op.o = "insert" \/ (op.o \in {"get", "get_mut"} /\ e.ret.hit)
      used2 == [k \in ks |-> IF refreshed /\ k = op.k THEN [n |-> n2, t |-> t2]
                             ELSE IF k \in DOMAIN mm.used THEN mm.used[k] ELSE [n |-> n2, t |-> t2]]
  IN [used |-> used2, n |-> n2, t |-> t2, keys |-> ks]

MonViol(mm, c, e) ==
  LET op == e.op  ks == StKeys(e.st) IN
  (IF IsLookup(op) /\ e.ret.hit /\ ~(op.k \in DOMAIN mm.used /\ mm.t - mm.used[op.k].t <= c.ttl)
     THEN {"NoStale"} ELSE {})
  \cup (IF Len(e.st) > c.cap THEN {"Bound"} ELSE {})
  \cup (IF op.o = "insert" /\ \E x \in (mm.keys \ ks) \ {op.k} : \E y \in (mm.keys \cap ks) \ {op.k} :
                                  mm.used[y].n < mm.used[x].n
        THEN {"EvictLru"} ELSE {})

Next ==
  /\ l <= Len(Rec) /\ l' = l + 1
  /\ LET e == Rec[l] IN
     IF e.op.o = "reset"
     THEN /\ cfg' = [cap |-> e.op.cap, ttl |-> e.op.ttl] /\ q' = <<>> /\ m' = M0 /\ UNCHANGED <<viols, sr>>
     ELSE /\ UNCHANGED cfg
          /\ m' = MonStep(m, cfg, e)
          /\ viols' = viols \o SetToSeq({<<l, f>> : f \in MonViol(m, cfg, e)})
          /\ IF STRICT
             THEN /\ "panic" \notin DOMAIN e.ret
                  /\ sr' = Step(q, cfg, e.op, 0)
                  /\ RetEq(sr'.ret, e.ret) /\ Proj(sr'.q) = e.st /\ q' = sr'.q
             ELSE q' = q /\ sr' = sr
Spec == Init /\ [][Next]_vars

Report == l <= Len(Rec) \/ PrintT(<<"VIOLS", ToJson(viols)>>)
Accepted == IF TLCGet("stats").diameter = Len(Rec) + 1 THEN TRUE
            ELSE Print(<<"REJECT", TLCGet("stats").diameter, Rec[TLCGet("stats").diameter]>>, FALSE)
=============================================================================
