-------------------------- MODULE Trace_PacketCodec --------------------------
(* Validation of implementation traces of the packet codec (`vh replay|drive pcodec`).                *)
(* One event = one abstract datagram `op` (a case of PacketCodec, or `raw` = an unconstrained byte    *)
(* string) with the observations `vs` of its concrete variants: what the real `Packet::decode` said,  *)
(* and when it accepted: the decoded fields, the authenticated bytes, the real encoder's bytes for    *)
(* the decoded packet and what decoding those gives -- next to what the harness built (`exp`, `eaad`, *)
(* `x`) and what its own encoder makes of the decoded fields (`ind`, `aadi`).  Byte strings are hex   *)
(* or length:digest tokens; they are only compared for equality.                                       *)
(*  STRICT = FALSE: monitor. The formulas of C05 on the observations; every event is consumed.        *)
(*  STRICT = TRUE : every variant must get the decision of PacketCodec!Verdict (accept / which error, *)
(*                  the kind, with or without record).                                                *)
EXTENDS PacketCodec, TLC, Json, IOUtils, SequencesExt
CONSTANT STRICT
Rec == ndJsonDeserialize(IOEnv.TRACE)
VARIABLES l, viols
vars == <<l, viols>>
Init == l = 1 /\ viols = <<>>

IsCase(op) == op.o \in {"msg", "way", "hs"}

\* the C05 formulas falsified by the observation v of a variant of op
VarViol(op, v) ==
  LET req == IF IsCase(op) THEN Required(op) ELSE {}
      wf  == IsCase(op) /\ WellFormed(op) IN
  \* totality: decoding (and encoding / decoding what was decoded) never panics
  (IF v.panic # "" THEN {"C05.Panic"} ELSE {})
  \* strictness: what the statement lists is rejected
  \cup (IF v.acc THEN {"C05." \o r : r \in req} ELSE {})
  \* exactness: the encoding of a well-formed packet for this node decodes ...
  \cup (IF wf /\ ~v.acc /\ v.panic = "" THEN {"C05.Rejected"} ELSE {})
  \cup (IF v.acc /\ v.panic = "" THEN
          LET g == v.got IN
          \* ... to the same packet,
             (IF wf /\ g.pkt # v.exp THEN {"C05.Fields"} ELSE {})
          \* the same authenticated bytes iv || unmasked header || auth-data (also: the sender-side authenticated_data()
          \* of whatever packet was decoded is that prefix of its layout),
          \* (and: a packet returned without a record comes with authenticated bytes that are exactly its own - bytes after the key of
          \*  a handshake are a record or the datagram is rejected, they are not silently dropped)
          \cup (IF (wf /\ g.aad # v.eaad) \/ g.aadv # g.aadi \/ g.dropped THEN {"C05.AuthData"} ELSE {})
          \* and the datagram is the discv5.1 layout: the real encoder's bytes for the decoded packet are those of the
          \* independent encoder (for a well-formed case: the very datagram that was decoded)
          \cup (IF (wf /\ g.enc # v.x) \/ g.enc # g.ind THEN {"C05.Layout"} ELSE {})
          \* whatever is accepted is a packet: its encoding decodes to it again, with its authenticated bytes
          \cup (IF ~g.re.acc \/ g.re.pkt # g.pkt \/ g.re.aad # g.aadi THEN {"C05.RoundTrip"} ELSE {})
        ELSE {})
EvViol(e) == UNION {VarViol(e.op, e.vs[i]) : i \in 1..Len(e.vs)}

\* strict conformance of a variant to the transcribed decision structure
StrictOk(op, v) ==
  LET d == Verdict(op) IN
  /\ v.panic = "" /\ v.acc = d.acc
  /\ (~v.acc => v.err = d.err)
  /\ (v.acc => /\ v.got.pkt.kind = d.kind
               /\ (v.got.pkt.rec = "none") = (d.rec = "none")
               /\ (op.rec = "trail" => v.got.pkt = v.exp))      \* bytes after a valid record are ignored

Next ==
  /\ l <= Len(Rec) /\ l' = l + 1
  /\ LET e == Rec[l] IN
     IF e.op.o = "reset" THEN UNCHANGED viols
     ELSE /\ viols' = viols \o SetToSeq({<<l, f>> : f \in EvViol(e)})
          /\ (STRICT /\ IsCase(e.op)) => \A i \in 1..Len(e.vs) : StrictOk(e.op, e.vs[i])
Spec == Init /\ [][Next]_vars

Report == l <= Len(Rec) \/ PrintT(<<"VIOLS", ToJson(viols)>>)
Accepted == IF TLCGet("stats").diameter = Len(Rec) + 1 THEN TRUE
            ELSE Print(<<"REJECT", TLCGet("stats").diameter, Rec[TLCGet("stats").diameter].op>>, FALSE)
=============================================================================
