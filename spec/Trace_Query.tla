----------------------------- MODULE Trace_Query -----------------------------
(* Validation of implementation traces of FindNodeQuery / PredicateQuery (`vh replay|drive query`). *)
(*  STRICT = TRUE : each call must be the specification's step (same return, same peer states,      *)
(*                  same progress and num_waiting).                                                  *)
(*  STRICT = FALSE: monitor only: C09 / C10 formulas on the observed calls and returns.              *)
EXTENDS Query, TLC, Json, IOUtils, SequencesExt
CONSTANT STRICT
Rec == ndJsonDeserialize(IOEnv.TRACE)
VARIABLES l, q, m, viols, sr
vars == <<l, q, m, viols, sr>>

Q0 == New([par |-> 1, nr |-> 1, pto |-> 1, pred |-> FALSE], <<>>)
M0 == [cfg |-> Q0.cfg, now |-> 0,
       contacted |-> <<>>,      \* [p, t] in order of contact
       reported |-> {},         \* peers whose outcome (success / failure) was reported while they counted as contacted
       succ |-> {},             \* peers for which a success was reported after they were contacted
       accs |-> {},             \* ... as the first report about them (certainly taken into account)
       learned |-> {}, match |-> <<>>, everStalled |-> FALSE, finished |-> FALSE]
Init == l = 1 /\ q = Q0 /\ m = M0 /\ viols = <<>> /\ sr = [q |-> Q0, ret |-> <<"ok", 0>>]

ProjQ(qq) == <<qq.prog, qq.nw, [i \in 1..Len(qq.ps) |-> <<qq.ps[i].p, qq.ps[i].st>>]>>
Contacted(mm) == {mm.contacted[i].p : i \in 1..Len(mm.contacted)}
InFlight(mm, now) == {i \in 1..Len(mm.contacted) : mm.contacted[i].p \notin mm.reported /\ now < mm.contacted[i].t + mm.cfg.pto}

MonStep0(mm, e) ==
  LET op == e.op  now == e.now
      isC == e.ret[1] = "contact"
      acc == op.o = "on_success" /\ op.p \in Contacted(mm) /\ op.p \notin mm.reported /\ ~mm.finished
      rep == op.o \in {"on_success", "on_failure"} /\ op.p \in Contacted(mm) IN
  [mm EXCEPT !.now = now,
             !.contacted = IF isC THEN Append(@, [p |-> e.ret[2], t |-> now]) ELSE IF op.o = "drain" THEN @ \o [i \in 1..Len(e.ret[2]) |-> [p |-> e.ret[2][i], t |-> now]] ELSE @,
             !.reported = IF rep THEN @ \cup {op.p} ELSE IF op.o = "drain" THEN @ \cup {e.ret[2][i] : i \in 1..Len(e.ret[2])} ELSE @,
             !.succ = IF op.o = "on_success" /\ op.p \in Contacted(mm) THEN @ \cup {op.p} ELSE @,   \* any success report after the contact
             !.accs = IF acc THEN @ \cup {op.p} ELSE @,
             !.learned = IF acc THEN @ \cup {op.news[i][1] : i \in 1..Len(op.news)} ELSE @,
             \* per peer: was it ever / always reported with a record satisfying the predicate (a peer can be reported with several records)
             !.match = IF op.o = "on_success" /\ op.p \in Contacted(mm) THEN [p \in DOMAIN @ \cup {op.news[i][1] : i \in 1..Len(op.news)} |->
                                      LET now1 == {op.news[i][2] : i \in {i \in 1..Len(op.news) : op.news[i][1] = p}} IN
                                      [any |-> (p \in DOMAIN @ /\ @[p].any) \/ TRUE \in now1, all |-> (p \in DOMAIN @ => @[p].all) /\ FALSE \notin now1]] ELSE @,
             !.everStalled = @ \/ e.st[1] = "Stalled",
             !.finished = @ \/ e.ret[1] = "Finished"]

MonStep(mm, e) == IF e.ret[1] = "panic" THEN mm ELSE MonStep0(mm, e)
MonViol0(mm, m2, e) ==
  LET op == e.op IN
  \* C09: no peer is asked twice
  (IF (e.ret[1] = "contact" /\ e.ret[2] \in Contacted(mm))
      \/ (op.o = "drain" /\ \E i \in 1..Len(e.ret[2]) : e.ret[2][i] \in Contacted(mm) \/ \E j \in 1..Len(e.ret[2]) : j # i /\ e.ret[2][j] = e.ret[2][i])
   THEN {"C09.ContactTwice"} ELSE {})
  \* C09: requests in flight (contacted, no outcome reported, peer timeout not elapsed) within the configured parallelism,
  \* or within num_results once the lookup has stalled
  \cup (IF e.ret[1] = "contact" /\ ~(Cardinality(InFlight(m2, e.now)) <= mm.cfg.par \/ (mm.everStalled /\ Cardinality(InFlight(m2, e.now)) <= mm.cfg.nr))
        THEN {"C09.Parallelism"} ELSE {})
  \* (termination: a lookup whose remaining contacted peers stay silent may rely on the pool's query timeout - e.g. a closer
  \*  not-yet-contacted peer keeps `next` from ever expiring farther waiting peers while at capacity -, so a drain that is cut
  \*  off is not a violation; see DESIGN 5/C09.  What is checked on the code is the bounded form: `next` always returns.)
  \* C10: the result
  \cup (IF op.o = "result" THEN
          LET r == e.ret[2] IN
          (IF ~Sorted(r) \/ Len(r) > mm.cfg.nr THEN {"C10.OrderOrSize"} ELSE {})
          \cup (IF \E i \in 1..Len(r) : r[i] \notin mm.succ THEN {"C10.NotAnswered"} ELSE {})
          \cup (IF mm.cfg.pred /\ \E i \in 1..Len(r) : ~(r[i] \in DOMAIN mm.match /\ mm.match[r[i]].any) THEN {"C10.PredicateMismatch"} ELSE {})
          \cup (IF mm.finished /\ Len(r) < mm.cfg.nr /\ \E p \in mm.learned : p \notin Contacted(mm) THEN {"C10.Incomplete"} ELSE {})   \* only if not cut off
          \* every peer that answered and (for predicate lookups) matches, among the closest, is in the result: the closest nr of them
          \cup (IF LET good == {p \in mm.accs : ~mm.cfg.pred \/ (p \in DOMAIN mm.match /\ mm.match[p].all)} IN
                   \E p \in good : p \notin {r[i] : i \in 1..Len(r)} /\ (Len(r) < mm.cfg.nr \/ \E i \in 1..Len(r) : r[i] > p)
                THEN {"C10.MissingCloser"} ELSE {})
        ELSE {})

\* a panic of the state machine is data: the lookup it belongs to can no longer terminate or hand over its result
MonViol(mm, m2, e) == IF e.ret[1] = "panic" THEN {"Panic"} ELSE MonViol0(mm, m2, e)
Next ==
  /\ l <= Len(Rec) /\ l' = l + 1
  /\ LET e == Rec[l] IN
     IF e.op.o = "reset"
     THEN LET c == [par |-> e.op.par, nr |-> e.op.nr, pto |-> e.op.pto, pred |-> e.op.pred]
              n == IF Len(e.op.cands) < c.nr THEN Len(e.op.cands) ELSE c.nr IN
          /\ q' = New(c, e.op.cands)
          /\ m' = [M0 EXCEPT !.cfg = c, !.learned = {e.op.cands[i][1] : i \in 1..n},
                             !.match = [p \in {e.op.cands[i][1] : i \in 1..n} |-> LET f == {e.op.cands[i][2] : i \in {i \in 1..n : e.op.cands[i][1] = p}} IN [any |-> TRUE \in f, all |-> FALSE \notin f]]]
          /\ UNCHANGED <<viols, sr>>
     ELSE /\ m' = MonStep(m, e)
          /\ viols' = viols \o SetToSeq({<<l, f>> : f \in MonViol(m, m', e)})
          /\ IF STRICT /\ e.ret[1] = "panic" THEN FALSE ELSE
             IF STRICT /\ e.op.o \in {"next", "on_success", "on_failure", "tick"}
             THEN /\ sr' = QStep(q, e.op, e.now)
                  /\ sr'.ret = e.ret /\ ProjQ(sr'.q) = e.st /\ q' = sr'.q
             ELSE IF STRICT /\ e.op.o = "result"
             THEN sr' = sr /\ q' = q /\ e.ret[2] = Result(q)
             ELSE UNCHANGED <<q, sr>>       \* drain: a harness-side loop, judged by the monitor
Spec == Init /\ [][Next]_vars
Report == l <= Len(Rec) \/ PrintT(<<"VIOLS", ToJson(viols)>>)
Accepted == IF TLCGet("stats").diameter = Len(Rec) + 1 THEN TRUE
            ELSE Print(<<"REJECT", TLCGet("stats").diameter, Rec[TLCGet("stats").diameter]>>, FALSE)
=============================================================================
