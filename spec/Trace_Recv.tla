------------------------------ MODULE Trace_Recv ------------------------------
(* Validation of implementation traces of RecvHandler::handle_inbound over the packet filter (`vh replay recv`).      *)
(*  STRICT = TRUE : every operation must be the specification's step (outcome, ban list, limiter state, tracking maps, *)
(*                  expected-response set).                                                                            *)
(*  STRICT = FALSE: monitor only: the C18 formulas (RViols of Filter.tla) on a ledger of observations: the datagram,    *)
(*                  whether a response was expected from its source, what reached the packet handler, the              *)
(*                  PERMIT_BAN_LIST snapshot before and after, the outcome at the never-pruned copy.                    *)
EXTENDS Filter, TLC, Json, IOUtils, SequencesExt
CONSTANT STRICT
Rec == ndJsonDeserialize(IOEnv.TRACE)
VARIABLES i, cfg, f, bl, exp, arr, viols, sr
vars == <<i, cfg, f, bl, exp, arr, viols, sr>>
C0 == [enabled |-> FALSE, rl |-> FALSE, ipq |-> NoQ, nodeq |-> NoQ, totq |-> NoQ, maxNodes |-> 0, maxBans |-> 0, banDur |-> 0]
Init == i = 1 /\ cfg = C0 /\ f = FNew(C0) /\ bl = Bl0 /\ exp = {} /\ arr = <<>> /\ viols = <<>>
        /\ sr = [f |-> FNew(C0), bl |-> Bl0, exp |-> {}, ret |-> OkRet]

SeqSet(s) == {s[j] : j \in 1..Len(s)}
Pairs(s) == {<<s[j][1], s[j][2]>> : j \in 1..Len(s)}
ObsBans(s) == {<<s[j][1], [perm |-> s[j][2], until |-> s[j][3]]>> : j \in 1..Len(s)}
ObsBl(x) == [pi |-> SeqSet(x.pi), bi |-> ObsBans(x.bi), pn |-> SeqSet(x.pn), bn |-> ObsBans(x.bn)]
Later(m, now) == {p \in m : p[2] > now}              \* see Trace_Filter
ProjF(ff, now) == [tot |-> Later(ff.rl.tot.tat, now), ip |-> Later(ff.rl.ip.tat, now), node |-> Later(ff.rl.node.tat, now), known |-> ff.known, bcnt |-> ff.bcnt]
ObsF(st, now) == [tot |-> Later(Pairs(st.tot), now), ip |-> Later(Pairs(st.ip), now), node |-> Later(Pairs(st.node), now),
             known |-> {<<st.known[j][1], SeqSet(st.known[j][2])>> : j \in 1..Len(st.known)}, bcnt |-> Pairs(st.bcnt)]
Quota(b, p) == IF b = 0 THEN NoQ ELSE [b |-> b, p |-> p]
Next ==
  /\ i <= Len(Rec) /\ i' = i + 1
  /\ LET e == Rec[i] IN
     IF e.op.o = "reset"
     THEN /\ cfg' = [enabled |-> e.op.enabled, rl |-> e.op.rl, ipq |-> Quota(e.op.ipb, e.op.ipp), nodeq |-> Quota(e.op.nodeb, e.op.nodep),
                     totq |-> Quota(e.op.totb, e.op.totp), maxNodes |-> e.op.maxNodes, maxBans |-> e.op.maxBans, banDur |-> e.op.banDur]
          /\ f' = IF cfg'.rl THEN FNew(cfg') ELSE FNew([cfg' EXCEPT !.ipq = NoQ, !.nodeq = NoQ, !.totq = NoQ])
          /\ bl' = Bl0 /\ exp' = {} /\ arr' = <<>> /\ UNCHANGED <<viols, sr>>
     ELSE /\ UNCHANGED cfg
          \* e.exp: the sources in the expected-response map when the operation started (read from the shared map)
          /\ arr' = IF e.op.o = "dgram" THEN Append(arr, REntry(e.op, e.now, SeqSet(e.exp), ObsBl(e.pre), ObsBl(e.post), e.ret, e.sh)) ELSE arr
          /\ viols' = IF e.op.o = "dgram" THEN viols \o SetToSeq({<<i, x>> : x \in RViols(arr', cfg)}) ELSE viols
          /\ IF STRICT
             THEN /\ bl = ObsBl(e.pre) /\ exp = SeqSet(e.exp)
                  /\ sr' = RStep(f, bl, cfg, e.now, exp, e.op)
                  /\ sr'.ret = e.ret /\ sr'.bl = ObsBl(e.post) /\ ProjF(sr'.f, e.now) = ObsF(e.st, e.now) /\ e.st.clock = e.now
                  /\ f' = sr'.f /\ bl' = sr'.bl /\ exp' = sr'.exp
             ELSE UNCHANGED <<f, bl, exp, sr>>
Spec == Init /\ [][Next]_vars
Report == i <= Len(Rec) \/ PrintT(<<"VIOLS", ToJson(viols)>>)
Accepted == IF TLCGet("stats").diameter = Len(Rec) + 1 THEN TRUE
            ELSE Print(<<"REJECT", TLCGet("stats").diameter, Rec[TLCGet("stats").diameter]>>, FALSE)
=============================================================================
