SPECIFICATION Spec
CONSTANT STRICT = TRUE
INVARIANT Report
POSTCONDITION Accepted
CHECK_DEADLOCK FALSE
