---------------------------- MODULE Trace_RpcCodec ----------------------------
(* Validation of implementation traces of the RPC message codec (`vh replay|drive rcodec`).           *)
(* One event = one abstract message `op` (a case of RpcCodec, or `raw` = an unconstrained byte string) *)
(* with the observations `vs` of its concrete variants: what the real `Message::decode` said, and     *)
(* when it accepted: the decoded fields (`msg`), the real encoder's bytes for the decoded message     *)
(* (`enc`), what decoding those gives (`re`) -- next to what the harness built (`exp`: the fields the  *)
(* decoder is meant to return, `x`: the input) and what its own RLP encoder makes of the decoded      *)
(* fields (`ind`).  Byte strings are hex or length:digest tokens, integers decimal strings.            *)
(*  STRICT = FALSE: monitor. The formulas of C06 on the observations; every event is consumed.        *)
(*  STRICT = TRUE : every variant must get the decision of RpcCodec!Verdict.                          *)
EXTENDS RpcCodec, TLC, Json, IOUtils, SequencesExt
CONSTANT STRICT
Rec == ndJsonDeserialize(IOEnv.TRACE)
VARIABLES l, viols
vars == <<l, viols>>
Init == l = 1 /\ viols = <<>>

IsCase(op) == op.o \in {"ping", "pong", "findnode", "nodes", "talkreq", "talkresp", "unknown"}
\* the fields compared (for ::1 the statement leaves open whether it counts as an IPv4-compatible form)
FieldsEq(op, a, b) == \A f \in DOMAIN a : (f = "ip" /\ op.ip = "loop") \/ a[f] = b[f]

VarViol(op, v) ==
  LET req == IF IsCase(op) THEN Required(op) ELSE {}
      wf  == IsCase(op) /\ WellFormed(op)
      ex  == IsCase(op) /\ Exact(op) IN
  \* totality
  (IF v.panic # "" THEN {"C06.Panic"} ELSE {})
  \* strictness: what the statement lists is rejected
  \cup (IF v.acc THEN {"C06." \o r : r \in req} ELSE {})
  \* exactness: the encoding of a well-formed message decodes ...
  \cup (IF wf /\ ~v.acc /\ v.panic = "" THEN {"C06.Rejected"} ELSE {})
  \cup (IF v.acc /\ v.panic = "" THEN
          LET g == v.got IN
          \* ... to the same message (IPv4-mapped / compatible addresses: to their IPv4 value),
             (IF wf /\ ~FieldsEq(op, v.exp, g.msg) THEN {"C06.Fields"} ELSE {})
          \* and the bytes are the RLP layout: the real encoder's bytes for the decoded message are those of the independent
          \* encoder (for a well-formed case without address mapping: the very input)
          \cup (IF (ex /\ g.enc # v.x) \/ g.enc # g.ind THEN {"C06.Layout"} ELSE {})
          \* whatever is accepted is a message: its encoding decodes to it again
          \cup (IF ~g.re.acc \/ g.re.msg # g.msg \/ ~g.re.same THEN {"C06.RoundTrip"} ELSE {})
        ELSE {})
EvViol(e) == UNION {VarViol(e.op, e.vs[i]) : i \in 1..Len(e.vs)}

StrictOk(op, v) == v.panic = "" /\ v.acc = Verdict(op).acc

Next ==
  /\ l <= Len(Rec) /\ l' = l + 1
  /\ LET e == Rec[l] IN
     IF e.op.o = "reset" THEN UNCHANGED viols
     ELSE /\ viols' = viols \o SetToSeq({<<l, f>> : f \in EvViol(e)})
          /\ (STRICT /\ IsCase(e.op)) => \A i \in 1..Len(e.vs) : StrictOk(e.op, e.vs[i])
Spec == Init /\ [][Next]_vars

Report == l <= Len(Rec) \/ PrintT(<<"VIOLS", ToJson(viols)>>)
Accepted == IF TLCGet("stats").diameter = Len(Rec) + 1 THEN TRUE
            ELSE Print(<<"REJECT", TLCGet("stats").diameter, Rec[TLCGet("stats").diameter].op>>, FALSE)
=============================================================================
