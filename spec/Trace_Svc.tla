------------------------------ MODULE Trace_Svc ------------------------------
(* Validation of traces of the real Service run with a scripted handler (`vh replay svc`).      *)
(* Monitor formulas for C20 (TALK), C14 (served FINDNODE / PING), C11 (NODES validation and      *)
(* banning), C12 (routing-table admission), C17 (external address votes), evaluated on the        *)
(* observations of each step: what the service handed to the transport (`hin`), the events on the  *)
(* event stream, the routing table, the ban list and the local record.                             *)
(* STRICT: the TALK part is additionally compared with Talk.tla step by step.                      *)
EXTENDS Talk, NodesExchange, TLC, Json, IOUtils, SequencesExt, FiniteSetsExt
LK == INSTANCE Lookup
CONSTANT STRICT
Rec == ndJsonDeserialize(IOEnv.TRACE)
VARIABLES l, t, m, viols, sr, lq       \* lq: the co-simulated lookup (strict pass; Lookup.tla over Query.tla)
vars == <<l, t, m, viols, sr, lq>>

Get(r, f, d) == IF f \in DOMAIN r THEN r[f] ELSE d
SeqSet(q) == {q[i] : i \in 1..Len(q)}
Hin(e, kind) == {i \in 1..Len(e.obs.hin) : e.obs.hin[i].k = kind}
Evs(e, name) == {i \in 1..Len(e.obs.ev) : e.obs.ev[i].e = name}
TalkResp(e) == {i \in Hin(e, "Response") : e.obs.hin[i].body.t = "talk"}
Unres(e) == "unresolved" \in DOMAIN e.op
MAXWIRE == 1280

LK0 == [aged |-> 0,       \* virtual time passed (op "age"), ms
        tick |-> 0,       \* steps so far (to tell which lookups overlapped)
        calls |-> <<>>,   \* lookups started: [call, k, pred, t0, mixed (another lookup was open at the same time), n (callbacks so far), init (the candidates it starts from: the k table entries closest to the target)]
        lreqs |-> <<>>,   \* FINDNODE requests sent while a lookup was open: [rid, to, at, c (index of the only open lookup, 0 if ambiguous)]
        nodesok |-> {},   \* requests that got a complete NODES answer
        learnt |-> <<>>]  \* per request rid: the ids it reported: [rid, ids]
M0 == [cfg |-> [mode |-> "ip4", filter |-> "all", maxnodes |-> 16, vote_min |-> 2, vote_ms |-> 3600000, par |-> 3, pto |-> 3600000, qto |-> 3600000, cosim |-> FALSE],
       lk |-> LK0,
       running |-> TRUE,
       talks |-> <<>>,      \* [tr, rid, from] of every TALK request object handed to the application
       tresp |-> <<>>,      \* every TALK response handed to the transport: [rid, to, payload]
       table |-> <<>>,      \* routing table after the previous step
       local |-> [seq |-> 1, udp4 |-> "none", udp6 |-> "none", valid |-> TRUE],
       reqs |-> <<>>,       \* requests the service sent: [rid, to, ds (for FINDNODE), lookup (BOOLEAN)]
       offdist |-> {},      \* responders that returned a record at a distance that was not requested
       votes |-> <<>>,      \* latest PONG vote per eligible voter: [voter, sock]
       answered |-> {},     \* requests of the node that already got a response or a failure report (later ones are ignored)
       offered |-> {},      \* ids offered to the table by a session report or an explicit add
       offrecs |-> {},      \* the records they were offered with
       netrecs |-> {},      \* records seen in NODES responses
       xs |-> <<>>]         \* FINDNODE exchanges: [rid, to, x] with x the request state of NodesExchange.tla, fed with the observed packets
Init == l = 1 /\ t = T0 /\ m = M0 /\ viols = <<>> /\ sr = [t |-> T0, ret |-> "ok", out |-> <<>>] /\ lq = [l |-> LK!L0, ok |-> TRUE, ranks |-> <<>>]

\* ------------------------------------------------------------------ shapes of records  "<peer>:<seq>:<shape>"
PeerNames == {"p" \o ToString(i) : i \in 1..40}
Shapes == {"v4", "v6", "both", "none", "map", "mis", "mark", "big"}
ShapeOf(rec) == IF \E s \in Shapes : \E p \in PeerNames : \E q \in 1..9 : rec = p \o ":" \o ToString(q) \o ":" \o s
                THEN CHOOSE s \in Shapes : \E p \in PeerNames : \E q \in 1..9 : rec = p \o ":" \o ToString(q) \o ":" \o s ELSE "?"
RecSeq(rec) == IF \E q \in 1..9 : \E s \in Shapes : \E p \in PeerNames : rec = p \o ":" \o ToString(q) \o ":" \o s
              THEN CHOOSE q \in 1..9 : \E s \in Shapes : \E p \in PeerNames : rec = p \o ":" \o ToString(q) \o ":" \o s ELSE 0
RecOwner(rec) == IF \E p \in PeerNames : \E q \in 1..9 : \E s \in Shapes : rec = p \o ":" \o ToString(q) \o ":" \o s
                THEN CHOOSE p \in PeerNames : \E q \in 1..9 : \E s \in Shapes : rec = p \o ":" \o ToString(q) \o ":" \o s ELSE "?"
Contactable(mode, shape) ==
  CASE mode = "ip4" -> shape \in {"v4", "both", "mis", "mark", "big"}
    [] mode = "ip6" -> shape \in {"v6", "both"}
    [] OTHER -> shape \in {"v4", "v6", "both", "mis", "mark", "big"}
PassesFilter(cfg, shape) == cfg.filter = "all" \/ shape # "mark"

\* ------------------------------------------------------------------ ledger
VOTEMS == 120000       \* Config::vote_duration (default), in ms
IsV6(s) == s \in {"X6", "Y6"} \/ \E k \in 1..40 : s = "p" \o ToString(k) \o ".v6"
\* feeding the packets of one step into the request state; `acc` collects what the step must report
XA0(ds) == [k \in DOMAIN X0(ds) \cup {"acc"} |-> IF k = "acc" THEN <<>> ELSE X0(ds)[k]]
RECURSIVE FoldPk(_, _, _)
FoldPk(x, pks, maxn) == IF pks = <<>> THEN x
                        ELSE LET x1 == HandleNodes([k \in DOMAIN x \ {"acc"} |-> x[k]], Head(pks), maxn) IN
                             FoldPk([k \in DOMAIN x1 \cup {"acc"} |-> IF k = "acc" THEN x.acc \o Reported(x1.out) ELSE x1[k]], Tail(pks), maxn)
MonStep(mm, e) ==
  LET op == e.op  obs == e.obs
      newTalks == [i \in 1..Cardinality(Evs(e, "TalkRequest")) |->
                     LET x == obs.ev[SetToSeq(Evs(e, "TalkRequest"))[i]] IN [tr |-> x.tr, rid |-> x.rid, from |-> x.from, src |-> IF op.o = "request_in" THEN op.src ELSE "?"]]
      newResp == [i \in 1..Cardinality(TalkResp(e)) |->
                     LET x == obs.hin[SetToSeq(TalkResp(e))[i]] IN [rid |-> x.rid, to |-> x.to, payload |-> x.body.resp]]
      newReqs == [i \in 1..Cardinality(Hin(e, "Request")) |->
                     LET x == obs.hin[SetToSeq(Hin(e, "Request"))[i]] IN
                     [rid |-> x.rid, to |-> x.to, t |-> x.body.t, ds |-> IF x.body.t = "findnode" THEN x.body.ds ELSE <<>>,
                      lookup |-> op.o \in {"lookup", "response_in", "fail", "poke", "advance", "age", "end", "honest_reply"}]]
      \* NODES packets of this step, as abstract records [d, self, n]
      pks == IF op.o = "response_in" /\ ~Unres(e) /\ op.body.t = "nodes"
             THEN <<[total |-> op.body.total, recs |-> [i \in 1..Len(op.body.recs) |-> [d |-> op.dists[i], self |-> op.body.recs[i] = "L", n |-> op.body.recs[i]]]]>>
             ELSE IF op.o = "honest_reply" /\ ~Unres(e)
             THEN [k \in 1..Len(op.packets) |-> [total |-> op.packets[k].total, recs |-> [i \in 1..Len(op.packets[k].recs) |-> [d |-> op.packets[k].dists[i], self |-> FALSE, n |-> op.packets[k].recs[i]]]]]
             ELSE <<>>
      xs1 == [i \in 1..Len(mm.xs) |-> IF pks # <<>> /\ mm.xs[i].rid = op.req THEN [mm.xs[i] EXCEPT !.x = FoldPk(@, pks, mm.cfg.maxnodes)] ELSE mm.xs[i]]
      xs2 == xs1 \o [i \in 1..Len(newReqs) |-> [rid |-> newReqs[i].rid, to |-> newReqs[i].to, x |-> XA0(newReqs[i].ds), fn |-> newReqs[i].t = "findnode"]]
      \* a PONG vote: counted by the node only if the voter is a connected outgoing peer of the routing table (before the step);
      \* in dual-stack mode the vote of any peer is admitted while the address family it speaks for (or both) lacks the minimum of votes
      isPong == op.o = "response_in" /\ ~Unres(e) /\ op.body.t = "pong" /\ "vote" \in DOMAIN op /\ op.req \notin mm.answered
                /\ \E i \in 1..Len(mm.reqs) : mm.reqs[i].rid = op.req /\ mm.reqs[i].t = "ping"
      \* votes live VOTEMS of virtual time (op "age"); expired votes count for nothing
      live == SelectSeq(mm.votes, LAMBDA v : v.age < mm.cfg.vote_ms)
      has4 == Cardinality({i \in 1..Len(live) : ~IsV6(live[i].sock)}) >= mm.cfg.vote_min
      has6 == Cardinality({i \in 1..Len(live) : IsV6(live[i].sock)}) >= mm.cfg.vote_min
      needMore == mm.cfg.mode = "dual" /\ ((~has4 /\ has6 /\ ~IsV6(op.vote)) \/ (has4 /\ ~has6 /\ IsV6(op.vote)) \/ (~has4 /\ ~has6))
      eligible == isPong /\ (needMore \/ \E i \in 1..Len(mm.table) : mm.table[i][1] = op.from /\ mm.table[i][3] = "C" /\ mm.table[i][4] = "O")
      votes0 == IF op.o = "age" THEN [i \in 1..Len(mm.votes) |-> [mm.votes[i] EXCEPT !.age = @ + op.ms]] ELSE mm.votes
      votes1 == IF eligible THEN SelectSeq(votes0, LAMBDA v : ~(v.voter = op.from /\ IsV6(v.sock) = IsV6(op.vote))) \o <<[voter |-> op.from, sock |-> op.vote, age |-> 0]>> ELSE votes0
      \* ---- lookups
      lk == mm.lk
      aged1 == lk.aged + (IF op.o = "age" THEN op.ms ELSE 0)
      openBefore == {i \in 1..Len(lk.calls) : lk.calls[i].n = 0}
      calls1 == IF op.o = "lookup" /\ "call" \in DOMAIN op
                THEN [i \in 1..Len(lk.calls) |-> IF i \in openBefore THEN [lk.calls[i] EXCEPT !.mixed = TRUE] ELSE lk.calls[i]]
                     \o <<[call |-> op.call, k |-> Get(op, "k", 16), pred |-> Get(op, "pred", FALSE) # FALSE, t0 |-> aged1, mixed |-> openBefore # {}, n |-> 0,
                           init |-> SeqSet(Get(op, "closest", <<>>)), s |-> lk.tick + 1, e |-> 0, r0 |-> Len(lk.lreqs), short |-> FALSE]>>
                ELSE lk.calls
      open1 == {i \in 1..Len(calls1) : calls1[i].n = 0}
      owner == IF Cardinality(open1) = 1 THEN (CHOOSE i \in open1 : TRUE) ELSE 0
      lreqs1 == lk.lreqs \o SelectSeq([i \in 1..Len(newReqs) |-> [rid |-> newReqs[i].rid, to |-> newReqs[i].to, at |-> aged1, c |-> owner, fn |-> newReqs[i].t = "findnode" /\ newReqs[i].lookup]],
                                       LAMBDA r : r.fn /\ open1 # {})
      complete == (op.o = "honest_reply" /\ ~Unres(e)) \/ (op.o = "response_in" /\ ~Unres(e) /\ op.body.t = "nodes" /\ op.body.total <= 1)
      nodesok1 == IF complete /\ op.req \notin mm.answered THEN lk.nodesok \cup {op.req} ELSE lk.nodesok
      learnt1 == IF complete /\ op.req \notin mm.answered
                 THEN Append(lk.learnt, [rid |-> op.req, ids |-> UNION {{RecOwner(pks[k].recs[i].n) : i \in 1..Len(pks[k].recs)} : k \in 1..Len(pks)}])
                 ELSE lk.learnt
      dn == obs.done
      calls2 == [i \in 1..Len(calls1) |->
                   LET D == {j \in 1..Len(dn) : dn[j].call = calls1[i].call} IN
                   IF D = {} THEN calls1[i]
                   ELSE [calls1[i] EXCEPT !.n = @ + Cardinality(D), !.e = IF @ = 0 THEN lk.tick + 1 ELSE @,
                                          \* finished by itself (not cut off by the query time-out) with fewer than k results
                                          !.short = \E j \in D : dn[j].ok /\ Len(dn[j].res) < calls1[i].k /\ aged1 - calls1[i].t0 < mm.cfg.qto]]
      lk1 == [aged |-> aged1, tick |-> lk.tick + 1, calls |-> calls2, lreqs |-> lreqs1, nodesok |-> nodesok1, learnt |-> learnt1]
  IN [mm EXCEPT !.running = @ /\ op.o # "shutdown", !.xs = xs2, !.votes = votes1, !.lk = lk1,
                !.answered = IF op.o \in {"response_in", "fail", "honest_reply"} /\ ~Unres(e) /\ ~(op.o = "response_in" /\ op.body.t = "nodes" /\ op.body.total > 1) THEN @ \cup {op.req} ELSE @,
                !.offered = IF op.o \in {"established", "add_enr"} THEN @ \cup {op.id} ELSE @,
                !.offrecs = IF op.o \in {"established", "add_enr"} THEN @ \cup {op.rec} ELSE @,
                !.netrecs = @ \cup UNION {{pks[k].recs[i].n : i \in 1..Len(pks[k].recs)} : k \in 1..Len(pks)},
                !.talks = @ \o newTalks, !.tresp = @ \o newResp, !.reqs = @ \o newReqs,
                !.table = obs.table, !.local = obs.local]

\* ------------------------------------------------------------------ C20
TalkOf(mm, tr) == IF \E i \in 1..Len(mm.talks) : mm.talks[i].tr = tr THEN mm.talks[CHOOSE i \in 1..Len(mm.talks) : mm.talks[i].tr = tr] ELSE [tr |-> 0, rid |-> "?", from |-> "?", src |-> "?"]
C20Viol(mm, m2, e) ==
  LET op == e.op  obs == e.obs IN
  (IF \E i, j \in 1..Len(m2.tresp) : i # j /\ m2.tresp[i].rid = m2.tresp[j].rid /\ m2.tresp[i].to = m2.tresp[j].to THEN {"C20.TwoResponses"} ELSE {})
  \cup (IF op.o \in {"talk_respond", "talk_drop"} /\ ~Unres(e) /\ mm.running
        THEN LET tk == TalkOf(mm, op.tr)
                 want == IF op.o = "talk_respond" /\ ~Get(op, "empty", FALSE) THEN "616e73776572" ELSE "" IN
             IF Cardinality({i \in TalkResp(e) : obs.hin[i].rid = tk.rid /\ obs.hin[i].to = tk.from /\ obs.hin[i].addr = tk.src /\ obs.hin[i].body.resp = want}) = 1
                /\ Cardinality(TalkResp(e)) = 1 THEN {} ELSE {"C20.NotAnsweredOnce"}
        ELSE IF TalkResp(e) # {} /\ mm.running THEN {"C20.SpuriousResponse"} ELSE {})
  \cup (IF op.o \in {"talk_respond", "talk_drop"} /\ ~Unres(e) /\ ~mm.running /\ op.ret \notin {"Err(ChannelClosed)", "dropped"} THEN {"C20.AfterShutdown"} ELSE {})

\* ------------------------------------------------------------------ C14: served FINDNODE and PING
Dedup(ds) == {ds[i] : i \in 1..Len(ds)}
C14Viol(mm, e) ==
  LET op == e.op  obs == e.obs IN
  IF op.o # "request_in" \/ Unres(e) \/ ~mm.running THEN {}
  ELSE IF op.body.t = "findnode" THEN
    LET R == {i \in Hin(e, "Response") : obs.hin[i].body.t = "nodes"}
        ds == Dedup(op.body.ds)
        sent == UNION {SeqSet(obs.hin[i].body.recs) : i \in R}
        nsent == LET f[S \in SUBSET R] == IF S = {} THEN 0 ELSE LET x == CHOOSE x \in S : TRUE IN Len(obs.hin[x].body.recs) + f[S \ {x}] IN f[R]
        \* table entries (before this step) at the requested distances, the requester excluded
        eligible == {mm.table[i][2] : i \in {i \in 1..Len(mm.table) : mm.table[i][5] \in ds /\ mm.table[i][1] # op.peer}}
        atds == {mm.table[i][2] : i \in {i \in 1..Len(mm.table) : mm.table[i][5] \in ds}}
        own == {r \in sent : \E q \in 1..99 : r = "L:" \o ToString(q)}
        others == sent \ own IN
    (IF R = {} THEN {"C14.NoAnswer"} ELSE {})
    \cup (IF \E i \in R : obs.hin[i].rid # op.rid \/ obs.hin[i].to # op.peer \/ obs.hin[i].addr # op.src THEN {"C14.WrongIdOrPeer"} ELSE {})
    \cup (IF \E i \in R : obs.hin[i].body.total # Cardinality(R) THEN {"C14.Total"} ELSE {})
    \cup (IF \E i \in R : obs.hin[i].wire > MAXWIRE THEN {"C14.TooBig"} ELSE {})
    \cup (IF (own # {}) # (0 \in ds) THEN {"C14.OwnRecord"} ELSE {})
    \cup (IF ~(others \subseteq eligible) THEN {"C14.ForeignRecord"} ELSE {})
    \* all of them when the table holds no more than the maximum at those distances; under truncation the requester's own entry may
    \* have taken one of the slots (the code filters it out after applying the cap) - DESIGN 5/C14
    \cup (IF Cardinality(others) < (IF Cardinality(atds) <= mm.cfg.maxnodes THEN Cardinality(eligible) ELSE mm.cfg.maxnodes - 1) THEN {"C14.Missing"} ELSE {})
    \cup (IF Cardinality(others) > mm.cfg.maxnodes \/ nsent # Cardinality(sent) THEN {"C14.TooManyOrDuplicate"} ELSE {})
  ELSE IF op.body.t = "ping" /\ Get(op, "from", "v4") # "z" THEN
    LET R == {i \in Hin(e, "Response") : obs.hin[i].body.t = "pong"} IN
    IF Cardinality(R) = 1 /\ \A i \in R : obs.hin[i].rid = op.rid /\ obs.hin[i].to = op.peer /\ obs.hin[i].addr = op.src /\ obs.hin[i].body.seq = mm.local.seq
                                          /\ obs.hin[i].body.sock = op.src
    THEN {} ELSE {"C14.Pong"}
  ELSE {}

\* ------------------------------------------------------------------ C11: NODES answers to lookup requests
C11Viol(mm, m2, e) ==
  LET op == e.op  obs == e.obs IN
  IF ~(op.o \in {"response_in", "honest_reply"} /\ ~Unres(e) /\ (op.o = "honest_reply" \/ op.body.t = "nodes")) THEN {}
  ELSE IF ~\E i \in 1..Len(mm.xs) : mm.xs[i].rid = op.req /\ mm.xs[i].fn THEN {}
  ELSE LET i == CHOOSE i \in 1..Len(mm.xs) : mm.xs[i].rid = op.req
           before == mm.xs[i].x   after == m2.xs[i].x
           \* what this step must report: the records accepted by the packets that completed the request in this step
           newAcc == SubSeq(after.acc, Len(before.acc) + 1, Len(after.acc))
           want == {newAcc[k].n : k \in 1..Len(newAcc)}
           got == {obs.ev[k].rec : k \in Evs(e, "Discovered")}
           resp == mm.xs[i].to
           predBanned == \E k \in 1..Len(m2.xs) : m2.xs[k].to = resp /\ m2.xs[k].x.banned
           isBanned == \E k \in 1..Len(obs.bans.nodes) : obs.bans.nodes[k] = resp IN
       (IF got \ want # {} THEN {"C11.UnrequestedAccepted"} ELSE {})
       \cup (IF want \ got # {} THEN {"C11.RequestedDropped"} ELSE {})
       \cup (IF isBanned /\ ~predBanned THEN {"C11.HonestBanned"} ELSE {})
       \cup (IF ~isBanned /\ predBanned THEN {"C11.NotBanned"} ELSE {})

\* ------------------------------------------------------------------ C12: routing-table admission and update policy
\* a table row is <<id, record name, state, direction, log2 distance, seq, shape>>
Row(tb, id) == tb[CHOOSE i \in 1..Len(tb) : tb[i][1] = id]
IdsIn(tb) == {tb[i][1] : i \in 1..Len(tb)}
C12Viol(mm, m2, e) ==
  LET op == e.op  tb == e.obs.table  prev == mm.table
      fresh == {id \in IdsIn(tb) : id \notin IdsIn(prev) \/ Row(prev, id)[2] # Row(tb, id)[2]} IN
  (IF \E id \in fresh : id = "L" \/ ~Contactable(mm.cfg.mode, Row(tb, id)[7]) \/ ~PassesFilter(mm.cfg, Row(tb, id)[7]) THEN {"C12.Admit"} ELSE {})
  \cup (IF \E id \in IdsIn(tb) \ IdsIn(prev) : id \notin m2.offered THEN {"C12.OnlyBySession"} ELSE {})
  \cup (IF op.o \in {"response_in", "honest_reply"} /\ \E id \in IdsIn(tb) \cap IdsIn(prev) :
              Row(prev, id)[2] # Row(tb, id)[2] /\ ~(Row(tb, id)[6] > Row(prev, id)[6])
        THEN {"C12.ReplaceRule"} ELSE {})
  \* whenever a record shows up in the table (also later, e.g. when a pending node is promoted): it is one a session / an explicit add
  \* offered, or one learnt from the network whose sequence number is strictly higher than that of a record the node was offered with
  \* (the value of ::1 is not judged)
  \cup (IF \E id \in fresh \ {"L"} : LET R == Row(tb, id)[2] IN
              ~(R \in m2.offrecs \/ (R \in m2.netrecs /\ \E R0 \in m2.offrecs \cup mm.netrecs : RecOwner(R0) = id /\ RecSeq(R0) < RecSeq(R)))
        THEN {"C12.Provenance"} ELSE {})

\* ------------------------------------------------------------------ C17: the advertised UDP address follows a clear majority only
VCount(vs, s) == Cardinality({i \in 1..Len(vs) : vs[i].sock = s})
ThrUp(n) == (7 * n + 5) \div 10          \* round(0.7 n); where 0.7 n is a half (n = 5) the larger rounding is accepted
C17Change(mm, m2, e, old, new, fam6) ==
  LET vs == SelectSeq(m2.votes, LAMBDA v : IsV6(v.sock) = fam6 /\ v.age < mm.cfg.vote_ms)
      socks == {vs[i].sock : i \in 1..Len(vs)} IN
  (IF ~(e.op.o = "response_in" /\ ~Unres(e) /\ e.op.body.t = "pong") THEN {"C17.NotByPong"} ELSE {})
  \cup (IF VCount(vs, new) < mm.cfg.vote_min THEN {"C17.BelowMinimum"} ELSE {})
  \cup (IF \E r \in socks \ {new} : VCount(vs, r) >= ThrUp(VCount(vs, new)) THEN {"C17.NoClearMajority"} ELSE {})
  \cup (IF ~(e.obs.local.seq > mm.local.seq) THEN {"C17.SeqNotIncreased"} ELSE {})
  \cup (IF ~e.obs.local.valid THEN {"C17.InvalidSignature"} ELSE {})
  \cup (IF ~\E i \in Evs(e, "SocketUpdated") : e.obs.ev[i].sock = new THEN {"C17.NotAnnounced"} ELSE {})
C17Viol(mm, m2, e) ==
  (IF e.obs.local.udp4 # mm.local.udp4 THEN C17Change(mm, m2, e, mm.local.udp4, e.obs.local.udp4, FALSE) ELSE {})
  \cup (IF e.obs.local.udp6 # mm.local.udp6 THEN C17Change(mm, m2, e, mm.local.udp6, e.obs.local.udp6, TRUE) ELSE {})

\* ------------------------------------------------------------------ C09 / C10 at the service: lookups (Discv5::find_node / find_node_predicate)
\* A lookup's requests are attributed to it only while it is the only open lookup (c # 0, ~mixed).
HasV4(rec) == ShapeOf(rec) \in {"v4", "both", "mis", "mark", "big"}
StrictInc(q) == \A i \in 1..Len(q) - 1 : q[i] < q[i + 1]
LkViol(mm, m2, e) ==
  LET op == e.op  lk == mm.lk  k2 == m2.lk  dn == e.obs.done
      Mine(c) == {j \in 1..Len(k2.lreqs) : k2.lreqs[j].c = c}
      CallIdx(name) == IF \E i \in 1..Len(k2.calls) : k2.calls[i].call = name THEN CHOOSE i \in 1..Len(k2.calls) : k2.calls[i].call = name ELSE 0
  IN
  (IF \E i \in 1..Len(k2.calls) : k2.calls[i].n >= 2 /\ (i > Len(lk.calls) \/ lk.calls[i].n < k2.calls[i].n) THEN {"C09.CallbackTwice"} ELSE {})
  \cup (IF op.o = "end" /\ \E i \in 1..Len(k2.calls) : k2.calls[i].n = 0 THEN {"C09.NoCallback"} ELSE {})
  \* cut off by the query timeout: a lookup that was already a second past its deadline (measured from its start) before a step that
  \* makes the service poll its lookups has handed over its result by the end of that step
  \* (LkViol: new formula for a deadline that moves with each request sent)
  \cup (IF op.o \in {"age", "poke"} /\ mm.running /\ m2.running
           /\ \E i \in 1..Len(lk.calls) : lk.calls[i].n = 0 /\ k2.calls[i].n = 0 /\ lk.aged - lk.calls[i].t0 >= mm.cfg.qto + 1000
        THEN {"C09.Overdue"} ELSE {})
  \cup (IF \E i \in 1..Len(k2.calls) : ~k2.calls[i].mixed /\ \E a, b \in Mine(i) : a < b /\ b > Len(lk.lreqs) /\ k2.lreqs[a].to = k2.lreqs[b].to
        THEN {"C09.SamePeerTwice"} ELSE {})
  \* until `par` peers have answered the lookup cannot have stalled: no more than `par` of its requests are in flight (sent, no outcome
  \* reported, per-peer timeout not elapsed)
  \cup (IF \E i \in 1..Len(k2.calls) : ~k2.calls[i].mixed /\ k2.calls[i].n = 0 /\
             Cardinality({j \in Mine(i) : k2.lreqs[j].rid \in k2.nodesok}) < mm.cfg.par /\
             Cardinality({j \in Mine(i) : k2.lreqs[j].rid \notin m2.answered /\ k2.aged - k2.lreqs[j].at < mm.cfg.pto}) > mm.cfg.par
        THEN {"C09.InFlight"} ELSE {})
  \cup UNION {LET d == dn[x]  i == CallIdx(d.call) IN
              IF i = 0 THEN {}
              ELSE IF ~d.ok THEN (IF mm.running THEN {"C09.ResultLost"} ELSE {})     \* the caller got an error instead of the result although the service runs
              ELSE
              LET c == k2.calls[i]
                  owners == [y \in 1..Len(d.res) |-> RecOwner(d.res[y])]
                  answeredBy == {k2.lreqs[j].to : j \in {j \in Mine(i) : k2.lreqs[j].rid \in k2.nodesok}}
                  contacted == {k2.lreqs[j].to : j \in Mine(i)}
                  learnt == (c.init \cup UNION {k2.learnt[y].ids : y \in {y \in 1..Len(k2.learnt) : \E j \in Mine(i) : k2.lreqs[j].rid = k2.learnt[y].rid}}) \ {"L", "?"}
              IN (IF Cardinality(SeqSet(owners)) # Len(owners) THEN {"C10.Duplicate"} ELSE {})
                 \cup (IF Len(d.res) > c.k THEN {"C10.TooMany"} ELSE {})
                 \cup (IF ~StrictInc(d.ranks) THEN {"C10.Order"} ELSE {})
                 \cup (IF c.pred /\ \E y \in 1..Len(d.res) : ~HasV4(d.res[y]) THEN {"C10.PredicateMismatch"} ELSE {})
                 \cup (IF ~c.mixed /\ \E y \in 1..Len(owners) : owners[y] \notin answeredBy THEN {"C10.NotAnswered"} ELSE {})
                 \cup (IF ~c.mixed /\ Len(d.res) < c.k /\ k2.aged - c.t0 < mm.cfg.qto /\ \E p \in learnt : p \notin contacted THEN {"C10.Incomplete"} ELSE {})
                 \* lookups that overlapped in time: requests cannot be attributed, but each lookup that finished by itself with fewer than k
                 \* results has sent its own request to each of its initial candidates - so a candidate shared by n such lookups was sent
                 \* at least n requests since the first of them started
                 \cup (IF c.mixed /\ c.short THEN
                         LET cluster == {j \in 1..Len(k2.calls) : k2.calls[j].s <= k2.tick /\ (k2.calls[j].e = 0 \/ k2.calls[j].e >= c.s)}
                             fin == {j \in cluster : k2.calls[j].short}
                             from == LET F == {k2.calls[j].r0 : j \in cluster} IN CHOOSE f0 \in F : \A f1 \in F : f0 <= f1
                         IN IF \E p \in UNION {k2.calls[j].init : j \in fin} :
                                 Cardinality({z \in (from + 1)..Len(k2.lreqs) : k2.lreqs[z].to = p}) < Cardinality({j \in fin : p \in k2.calls[j].init})
                            THEN {"C10.Incomplete"} ELSE {}
                       ELSE {})
             : x \in 1..Len(dn)}

\* ------------------------------------------------------------------ strict: the service's lookup is the query of Query.tla driven by Lookup.tla
\* (only a lookup that runs alone from start to callback is co-simulated; `spoiled` otherwise)
NameOfRank(ranks, r) == IF \E n \in DOMAIN ranks : ranks[n] = r THEN CHOOSE n \in DOMAIN ranks : ranks[n] = r ELSE "?"
LkStrict(cur, mm, m2, e) ==
  LET op == e.op  obs == e.obs  ll == cur.l
      now == m2.lk.aged
      \* lookup requests of this step, in order
      sentTo == LET R == SetToSeq(Hin(e, "Request")) IN
                SelectSeq([i \in 1..Len(R) |-> obs.hin[R[i]]], LAMBDA x : x.body.t = "findnode")
      sentNames == [i \in 1..Len(sentTo) |-> sentTo[i].to]
      ci == IF \E i \in 1..Len(mm.lk.calls) : mm.lk.calls[i].call = ll.call THEN CHOOSE i \in 1..Len(mm.lk.calls) : mm.lk.calls[i].call = ll.call ELSE 0
      isMine(rid) == \E j \in 1..Len(mm.lk.lreqs) : mm.lk.lreqs[j].rid = rid /\ mm.lk.lreqs[j].c = ci /\ ci # 0     \* (requests of earlier lookups are not this lookup's)
      toOf(rid) == mm.lk.lreqs[CHOOSE j \in 1..Len(mm.lk.lreqs) : mm.lk.lreqs[j].rid = rid].to
      complete == ((op.o = "honest_reply") \/ (op.o = "response_in" /\ op.body.t = "nodes" /\ op.body.total <= 1)) /\ ~Unres(e)
      recsOf == IF op.o = "honest_reply" THEN LET RECURSIVE Fl(_) Fl(q) == IF q = <<>> THEN <<>> ELSE Head(q).recs \o Fl(Tail(q)) IN Fl(op.packets)
                ELSE IF op.o = "response_in" /\ op.body.t = "nodes" THEN op.body.recs ELSE <<>>
      news(p) == LET ok == SelectSeq(recsOf, LAMBDA r : RecOwner(r) \notin {"L", "?", p} /\ Contactable(mm.cfg.mode, ShapeOf(r)) /\ RecOwner(r) \in DOMAIN cur.ranks)
                 IN [i \in 1..Len(ok) |-> <<cur.ranks[RecOwner(ok[i])], HasV4(ok[i])>>]
      Check(res, call) ==
        /\ [i \in 1..Len(res.contacts) |-> NameOfRank(cur.ranks, res.contacts[i])] = sentNames
        /\ IF res.fin THEN \E x \in 1..Len(obs.done) : obs.done[x].call = call /\ obs.done[x].ok
                                                      /\ [y \in 1..Len(obs.done[x].res) |-> RecOwner(obs.done[x].res[y])] = [y \in 1..Len(res.result) |-> NameOfRank(cur.ranks, res.result[y])]
           ELSE ~\E x \in 1..Len(obs.done) : obs.done[x].call = call
  IN
  IF op.o = "lookup" /\ "call" \in DOMAIN op
  THEN IF ll.on \/ ll.spoiled \/ \E i \in 1..Len(mm.lk.calls) : mm.lk.calls[i].n = 0
       THEN [l |-> [ll EXCEPT !.on = FALSE, !.spoiled = TRUE], ok |-> TRUE, ranks |-> cur.ranks]
       ELSE LET rk == op.ranks
                cands == [i \in 1..Len(op.closest) |-> <<rk[op.closest[i]], HasV4(Row(mm.table, op.closest[i])[2])>>]
                cfg == [par |-> mm.cfg.par, nr |-> op.k, pto |-> mm.cfg.pto, pred |-> op.pred]
                st == LK!Start(cfg, cands, now, mm.cfg.qto, op.call)
                res == IF Len(cands) = 0 THEN [l |-> [st EXCEPT !.on = FALSE], contacts |-> <<>>, fin |-> TRUE, result |-> <<>>] ELSE LK!Poll(st, now)
            IN [l |-> res.l, ranks |-> rk,
                ok |-> /\ [i \in 1..Len(res.contacts) |-> NameOfRank(rk, res.contacts[i])] = sentNames
                       /\ (res.fin => \E x \in 1..Len(obs.done) : obs.done[x].call = op.call)]
  ELSE IF ~ll.on THEN [cur EXCEPT !.ok = TRUE]
  \* answers with hand-made record lists (off-distance records, rival records, ...) are the business of NodesExchange.tla: the lookup
  \* they hit is no longer co-simulated (what is co-simulated: honest answers, empty answers, failures, time-outs)
  ELSE IF op.o = "response_in" /\ ~Unres(e) /\ op.body.t = "nodes" /\ (Len(op.body.recs) > 0 \/ op.body.total > 1) /\ isMine(op.req)
  THEN [l |-> [ll EXCEPT !.on = FALSE, !.spoiled = TRUE], ok |-> TRUE, ranks |-> cur.ranks]
  ELSE LET l1 == IF complete /\ isMine(op.req) /\ op.req \notin mm.answered /\ toOf(op.req) \in DOMAIN cur.ranks
                 THEN LK!Success(ll, cur.ranks[toOf(op.req)], news(toOf(op.req)))
                 ELSE IF op.o = "fail" /\ ~Unres(e) /\ isMine(op.req) /\ op.req \notin mm.answered /\ toOf(op.req) \in DOMAIN cur.ranks
                 THEN LK!Failure(ll, cur.ranks[toOf(op.req)])
                 ELSE ll
           res == IF op.o = "age" THEN LK!Poll2(l1, now) ELSE LK!Poll(l1, now)
       IN [l |-> res.l, ranks |-> cur.ranks, ok |-> Check(res, ll.call)]

MonViol(mm, m2, e) == LkViol(mm, m2, e) \cup C20Viol(mm, m2, e) \cup C14Viol(mm, e) \cup C11Viol(mm, m2, e) \cup C12Viol(mm, m2, e) \cup C17Viol(mm, m2, e)

Next ==
  /\ l <= Len(Rec) /\ l' = l + 1
  /\ LET e == Rec[l] IN
     IF e.op.o = "reset"
     THEN /\ m' = [M0 EXCEPT !.cfg = [mode |-> Get(e.op, "mode", "ip4"), filter |-> Get(e.op, "filter", "all"),
                                       maxnodes |-> Get(e.op, "maxnodes", 16), vote_min |-> Get(e.op, "vote_min", 2), vote_ms |-> 1000 * Get(e.op, "vote_dur", 3600),
                                       par |-> Get(e.op, "par", 3), pto |-> 1000 * Get(e.op, "peer_timeout", 3600), qto |-> 1000 * Get(e.op, "query_timeout", 3600),
                                       cosim |-> Get(e.op, "cosim", FALSE)],    \* the lookups of this behaviour are co-simulated by Lookup.tla (behaviours of MC_Lookup)
                             !.local = e.obs.local]
          /\ t' = T0 /\ UNCHANGED <<viols, sr>> /\ lq' = [l |-> LK!L0, ok |-> TRUE, ranks |-> <<>>]
     ELSE /\ m' = MonStep(m, e)
          /\ viols' = viols \o SetToSeq({<<l, f>> : f \in MonViol(m, m', e)})
          /\ IF STRICT /\ (e.op.o \in {"talk_respond", "talk_drop", "shutdown"} \/ (e.op.o = "request_in" /\ e.op.body.t = "talk"))
             THEN /\ sr' = TStep(t, e.op)
                  /\ t' = sr'.t
                  /\ (e.op.o \in {"talk_respond", "talk_drop"} => sr'.ret = Get(e.op, "ret", "unresolved"))
                  /\ Len(sr'.out) = Cardinality(TalkResp(e))
             ELSE UNCHANGED <<t, sr>>
          /\ IF STRICT /\ m.cfg.cosim THEN lq' = LkStrict(lq, m, m', e) /\ lq'.ok ELSE UNCHANGED lq
Spec == Init /\ [][Next]_vars
Report == l <= Len(Rec) \/ PrintT(<<"VIOLS", ToJson(viols)>>)
Accepted == IF TLCGet("stats").diameter = Len(Rec) + 1 THEN TRUE
            ELSE Print(<<"REJECT", TLCGet("stats").diameter, Rec[TLCGet("stats").diameter]>>, FALSE)
=============================================================================
